"""Replay of Engine A counterexamples against the natively compiled code (DESIGN 2.6).

1. the failing harness is re-run with `-Z concrete-playback --concrete-playback=print`;
2. the generated #[test] (the failing assertion's, never a cover's) is appended to a private copy
   of the harness module in a *second* scratch copy built without the container model
   (std HashMap/HashSet) - playback ignores kani::stub, so fmt/utf8 run for real;
3. `cargo kani playback` runs it natively (dev profile, and release when the failure is an
   arithmetic-overflow panic) under a watchdog and an address-space cap.

reproduced  := the test panics / fails, or (termination harnesses) hits the watchdog / memory cap.
"""
import hashlib
import os
import re
import resource
import shutil
import signal
import subprocess
import time

import overlay
import kanirun

VERIF = os.path.dirname(os.path.dirname(os.path.abspath(__file__)))


def _extract_tests(text):
    """[(kind, description, fn_name, code)]"""
    out = []
    for m in re.finditer(r"Concrete playback unit test for `([^`]+)`:\n```\n(.*?)\n```", text, re.S):
        code = m.group(2)
        k = re.search(r"/// Check for `(\w+)`: \"*(.*?)\"*\n", code)
        kind = k.group(1) if k else "unknown"
        desc = k.group(2) if k else ""
        fn = re.search(r"fn (kani_concrete_playback_\w+)\(", code)
        if fn:
            # drop Kani's doc comment: a multi-line assertion message leaves an uncommented line in it
            t = code.find("#[test]")
            body = code[t:] if t >= 0 else code
            header = "// Kani concrete playback for `%s`: check kind `%s`: %s\n" % (m.group(1), kind, desc.replace("\n", " ")[:200])
            out.append((kind, desc, fn.group(1), header + body))
    return out


def _limits(mem_gb):
    def f():
        os.setsid()
        b = int(mem_gb * (1 << 30))
        resource.setrlimit(resource.RLIMIT_AS, (b, b))
    return f


def replay_kani(prop, result, tier, scratch=None, watchdog_s=20):
    meta = result["meta"]
    h = meta["harness"]
    scratch = scratch or result.get("scratch")
    env = dict(os.environ)
    env["CARGO_NET_OFFLINE"] = "true"
    env.pop("RUSTUP_TOOLCHAIN", None)
    # 1. obtain the concrete values (Kani's playback-mode CBMC run is heavier than verification and
    #    occasionally dies; its output is kept, and it is retried once with a doubled memory cap)
    text = ""
    plog = os.path.join(kanirun.CACHE, "logs", f"{prop}-{tier}", h + ".playback.log")
    os.makedirs(os.path.dirname(plog), exist_ok=True)
    for attempt, mem in enumerate((result.get("mem_gb", 12), min(48, 2 * result.get("mem_gb", 12) + 8))):
        fd, tdir = kanirun._acquire_slot()
        try:
            cmd = kanirun.kani_cmd(h, tdir, ["-Z", "concrete-playback", "--concrete-playback=print"],
                                   module=meta.get("module"))
            try:
                p = subprocess.run(cmd, cwd=scratch, env=env, capture_output=True, text=True,
                                   timeout=max(2400, 4 * result.get("timeout_s", 600)), preexec_fn=_limits(mem))
                text = p.stdout + p.stderr
            except subprocess.TimeoutExpired:
                text = "TIMEOUT of concrete-playback generation"
        finally:
            os.close(fd)
        with open(plog, "a") as f:
            f.write(f"##### attempt {attempt} mem={mem}G\n" + text[-20000:] + "\n")
        if any(t[0] != "cover" for t in _extract_tests(text)):
            break   # (a check reported as ERROR - solver out of memory on that query - yields no test: retry)
    tests = _extract_tests(text)
    fail_descs = [c.get("desc", "") for c in result["parsed"].get("fail_list", [])]
    cand = [t for t in tests if t[0] != "cover"]
    if not cand:
        return {"reproduced": False, "detail": "Kani produced no concrete playback test for the failing check", "path": None}
    is_term = bool(meta.get("termination")) and any(
        ("unwinding assertion" in d or "iteration budget exceeded" in d) for d in fail_descs)
    overflow_only = all("overflow" in d for d in fail_descs) if fail_descs else False

    # 2. native scratch without the container model
    code = "\n".join(t[3] for t in cand)
    hsh = hashlib.sha1(code.encode()).hexdigest()[:10]
    os.makedirs(os.path.join(VERIF, "replays"), exist_ok=True)
    path = os.path.join(VERIF, "replays", f"{prop}-{h}-{hsh}.rs")
    with open(path, "w") as f:
        f.write(f"// counterexample for harness {h} (property {prop}); append to harness/{meta['module']}_harness.rs\n"
                f"// and run: cargo kani playback -Z concrete-playback --no-default-features -- {cand[0][2]}\n")
        f.write(code + "\n")
    rs = overlay.make_scratch(f"replay-{h}", model_maps=False, extra_tests={meta["module"]: code})
    outcomes = []
    try:
        profiles = [("dev", [])]
        # (cargo kani playback has no --release switch; release behaviour is checked by a plain
        #  cargo test in lifted replays, see replay_lifted)
        for prof, extra in profiles:
            for kind, desc, fn, _ in cand:
                build = None
                for _try in range(2):   # (a loaded machine: the build of the playback test is retried once)
                    try:
                        build = subprocess.run(
                            ["cargo", "kani", "playback", "-Z", "concrete-playback", "--no-default-features", "--lib",
                             "--only-codegen"] + extra,
                            cwd=rs, env=env, capture_output=True, text=True, timeout=1500)
                    except subprocess.TimeoutExpired:
                        build = subprocess.CompletedProcess([], 124, "", "TIMEOUT building the playback test")
                    if build.returncode == 0:
                        break
                if build.returncode != 0:
                    outcomes.append({"test": fn, "profile": prof, "outcome": "build-failed",
                                     "tail": (build.stdout + build.stderr)[-1500:]})
                    continue
                t0 = time.time()
                pr = subprocess.Popen(
                    ["cargo", "kani", "playback", "-Z", "concrete-playback", "--no-default-features", "--lib"] + extra
                    + ["--", fn, "--nocapture"],
                    cwd=rs, env=env, stdout=subprocess.PIPE, stderr=subprocess.STDOUT, text=True,
                    preexec_fn=_limits(4))
                try:
                    out, _ = pr.communicate(timeout=watchdog_s + 60)
                    hung = False
                except subprocess.TimeoutExpired:
                    hung = True
                    try:
                        os.killpg(pr.pid, signal.SIGKILL)
                    except ProcessLookupError:
                        pass
                    out, _ = pr.communicate()
                o = {"test": fn, "profile": prof, "check": desc, "wall_s": round(time.time() - t0, 1)}
                if hung:
                    o["outcome"] = "watchdog"
                elif "test result: FAILED" in out or "panicked at" in out:
                    o["outcome"] = "panicked"
                    mm = re.search(r"panicked at ([^\n]*)\n([^\n]*)", out)
                    if mm:
                        o["panic"] = (mm.group(1) + " " + mm.group(2))[:300]
                elif "memory allocation of" in out or "SIGABRT" in out or "SIGKILL" in out:
                    o["outcome"] = "memory-cap"
                elif "test result: ok" in out and " 1 passed" in out:
                    o["outcome"] = "passed"
                else:
                    o["outcome"] = "unknown"
                    o["tail"] = out[-800:]
                outcomes.append(o)
    finally:
        overlay.remove_scratch(rs)
    rep = any(o["outcome"] == "panicked" for o in outcomes)
    if is_term and any(o["outcome"] in ("watchdog", "memory-cap") for o in outcomes):
        rep = True
    res = {"reproduced": rep, "path": path, "outcomes": outcomes, "termination": is_term,
           "overflow_only": overflow_only,
           "detail": "; ".join(f"{o['test']}:{o['outcome']}" for o in outcomes)}
    lift = meta.get("lift", "").strip()
    if rep and (lift.startswith("name") or lift.startswith("rr:")):
        # unit-level reader state -> whole datagram through DnsIncoming::new (DESIGN 2.6)
        lifted = []
        for kind, desc, fn, tcode in cand:
            vals = _concrete_vals(tcode)
            if len(vals) < 2:
                continue
            window = [b for v in vals[:-1] for b in v]  # [u8; N] arrives as N one-byte values
            off = int.from_bytes(bytes(vals[-1]), "little")
            if lift == "name:overwrite-even":
                # N initial bytes, then one bool per even position (0xC0 if true else 0x00), then the offset
                n = (len(window) * 2) // 3
                init, bools = window[:n], window[n:]
                window = [(0xC0 if bools[i // 2] else 0x00) if i % 2 == 0 else init[i] for i in range(n)]
            if lift.startswith("name"):
                dg = lift_name_window(window, off)
            else:
                parts = lift.split(":")
                dg = lift_reader_window(window, off, int(parts[1]), bytes.fromhex(parts[2]) if len(parts) > 2 else b"")
            lr = run_lifted(dg, f"{prop}-{h}-{hsh}", watchdog_s)
            lr["datagram_hex"] = bytes(dg).hex()
            lifted.append(lr)
        res["lifted"] = lifted
        ok = any(l["reproduced"] for l in lifted)
        if not ok:
            res["reproduced"] = False
            res["detail"] += "; unit-level state reproduces but its lifted datagram does not: " + \
                "; ".join(l.get("detail", "") for l in lifted)
        else:
            res["detail"] += "; lifted datagram through DnsIncoming::new: " + \
                "; ".join(l.get("detail", "") for l in lifted)
            with open(path, "a") as f:
                for l in lifted:
                    f.write("// lifted datagram (hex) reproducing through DnsIncoming::new: %s  [%s]\n"
                            % (l["datagram_hex"], l.get("detail", "")))
    return res


def _concrete_vals(code):
    return [[int(x) for x in m.group(1).split(",") if x.strip()] for m in re.finditer(r"vec!\[([\d, ]*)\],", code)]


LIFT_SHIFT = 23  # 12-byte header + RR1 (root name, TYPE, CLASS, TTL, RDLENGTH)


def lift_name_window(window, off):
    """Embed a reader state (buffer `window`, cursor `off`) into a well-formed datagram:
    header(AN=2) | RR1 = root, TXT, IN, ttl 120, RDATA = window[..off] | window[off..] | padding.
    Compression pointers on the path the reader walks from `off` are rebased by LIFT_SHIFT."""
    w = list(window)
    seen = set()
    pos = off
    steps = 0
    while 0 <= pos < len(w) and steps < 4 * len(w) + 8:
        steps += 1
        b = w[pos]
        if b == 0:
            break
        if b & 0xC0 == 0xC0:
            if pos + 1 >= len(w) or pos in seen:
                break
            seen.add(pos)
            tgt = ((b & 0x3F) << 8) | w[pos + 1]
            new = tgt + LIFT_SHIFT
            w[pos] = 0xC0 | ((new >> 8) & 0x3F)
            w[pos + 1] = new & 0xFF
            pos = tgt
        elif b & 0xC0 == 0:
            pos += 1 + b
        else:
            break
    hdr = [0, 0, 0x84, 0, 0, 0, 0, 2, 0, 0, 0, 0]
    rr1 = [0, 0, 16, 0, 1, 0, 0, 0, 120, (off >> 8) & 0xFF, off & 0xFF]
    tail = [0, 1, 0, 1, 0, 0, 0, 120, 0, 4, 10, 0, 0, 1]  # lets a terminating name finish as an A record
    return hdr + rr1 + w + tail


def lift_reader_window(window, off, rrtype, prefix=b""):
    """Reader state (buffer, cursor) -> datagram whose second RR is of the type whose decoder calls
    that reader first, with RDATA = prefix + window[off..] ending exactly at the end of the datagram."""
    off = min(off, len(window))
    hdr = [0, 0, 0x84, 0, 0, 0, 0, 2, 0, 0, 0, 0]
    rr1 = [0, 0, 99, 0, 1, 0, 0, 0, 120, (off >> 8) & 0xFF, off & 0xFF] + list(window[:off])
    rd = list(prefix) + list(window[off:])
    rr2 = [0, (rrtype >> 8) & 0xFF, rrtype & 0xFF, 0, 1, 0, 0, 0, 120, (len(rd) >> 8) & 0xFF, len(rd) & 0xFF] + rd
    return hdr + rr1 + rr2


LIFT_TEST = """
#[cfg(test)]
mod verif_lifted {
    #[test]
    fn lifted_datagram() {
        let data: Vec<u8> = vec![%s];
        let r = super::DnsIncoming::new(data, crate::InterfaceId::default());
        // decoding must end with Ok or Err; reaching this line is the pass criterion
        let _ = r.is_ok();
    }
}
"""


def run_lifted(datagram, tag, watchdog_s=20):
    """Native `cargo test` (no Kani, no stubs, real HashMap) of DnsIncoming::new on the datagram,
    dev and release profile, under a watchdog and a 2 GB address-space cap."""
    rs = overlay.make_scratch("lift-" + tag, harness=False)
    env = dict(os.environ)
    env["CARGO_NET_OFFLINE"] = "true"
    env["CARGO_TARGET_DIR"] = os.path.join(kanirun.CACHE, "native-target")
    outs = []
    try:
        with open(os.path.join(rs, "src", "dns_parser.rs"), "a") as f:
            f.write(LIFT_TEST % ", ".join(str(b) for b in datagram))
        for prof in ([], ["--release"]):
            b = subprocess.run(["cargo", "test", "--offline", "--lib", "--no-run"] + prof, cwd=rs, env=env,
                               capture_output=True, text=True, timeout=1200)
            if b.returncode != 0:
                outs.append({"profile": prof or ["dev"], "outcome": "build-failed", "tail": b.stderr[-800:]})
                continue
            pr = subprocess.Popen(["cargo", "test", "--offline", "--lib"] + prof + ["--", "dns_parser::verif_lifted::lifted_datagram", "--exact"],
                                  cwd=rs, env=env, stdout=subprocess.PIPE, stderr=subprocess.STDOUT, text=True,
                                  preexec_fn=_limits(2))
            try:
                out, _ = pr.communicate(timeout=watchdog_s)
                hung = False
            except subprocess.TimeoutExpired:
                hung = True
                try:
                    os.killpg(pr.pid, signal.SIGKILL)
                except ProcessLookupError:
                    pass
                out, _ = pr.communicate()
            if hung:
                oc = "watchdog(no return in %ds)" % watchdog_s
            elif "memory allocation of" in out or "SIGABRT" in out or "SIGSEGV" in out:
                oc = "memory-cap"
            elif "panicked at" in out:
                mm = re.search(r"panicked at ([^\n]*)\n([^\n]*)", out)
                oc = "panicked: " + ((mm.group(1) + " " + mm.group(2))[:200] if mm else "")
            elif "1 passed" in out:
                oc = "returned"
            else:
                oc = "unknown: " + out[-300:]
            outs.append({"profile": (prof or ["dev"])[0], "outcome": oc})
    finally:
        overlay.remove_scratch(rs)
    rep = any(o["outcome"].startswith(("watchdog", "memory-cap", "panicked")) for o in outs)
    return {"reproduced": rep, "outcomes": outs,
            "detail": ", ".join("%s:%s" % (o["profile"], o["outcome"]) for o in outs)}
