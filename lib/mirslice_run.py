"""Engine B driver: regenerate MIR from /repo's working tree, run the property's queries."""
import json
import os
import subprocess
import time

import overlay

VERIF = os.path.dirname(os.path.dirname(os.path.abspath(__file__)))
CACHE = os.environ.get("VERIF_CACHE", os.path.join(VERIF, ".cache"))
PROPS_WITH_SPECS = {"C16", "C18", "C01", "C05", "C06", "C07", "C08", "C10", "C11", "C12", "C15", "C19", "C20"}


def dump_mir(tag):
    """cargo +nightly rustc -Zunpretty=mir on a scratch copy (dev profile semantics: overflow checks on)."""
    s = overlay.make_scratch("mir-" + tag, harness=False)
    out = os.path.join(s, "mir.txt")
    env = dict(os.environ)
    env["CARGO_NET_OFFLINE"] = "true"
    env["CARGO_TARGET_DIR"] = os.path.join(CACHE, "mir-target-" + str(os.getpid() % 8))
    env.pop("RUSTUP_TOOLCHAIN", None)
    with open(out, "w") as f:
        r = subprocess.run(["cargo", "+nightly", "rustc", "--offline", "--lib", "--no-default-features", "--",
                            "-Zunpretty=mir", "-C", "debug-assertions=off", "-C", "overflow-checks=on"],
                           cwd=s, env=env, stdout=f, stderr=subprocess.PIPE, text=True, timeout=900)
    if r.returncode != 0 or os.path.getsize(out) < 10000:
        overlay.remove_scratch(s)
        return None, None, "MIR dump failed: " + r.stderr[-400:]
    return s, out, ""


TV_PROPS = {"C05", "C07", "C10", "C11"}   # properties whose queries rest on summaries of DnsRecord / Probe methods


M64 = (1 << 64) - 1


def vectors_from_models(results):
    """Counterexamples of failed queries over a DnsRecord (variables r_ttl, r_created, o_ttl, o_created, now...)
    as extra translator-validation vectors: the compiled functions are run on exactly these inputs."""
    import re
    out = []
    for b in results:
        if b.get("status") != "failed":
            continue
        for w in b.get("witness", [])[:4]:
            pairs = re.findall(r"(\w+)=(\d+)", w.get("model", ""))
            kv = dict(pairs)
            nows = [int(v) for k, v in pairs if re.fullmatch(r"now\d*", k)] or [0]
            if "r_ttl" in kv or "r_created" in kv:
                ttl, c = int(kv.get("r_ttl", 0)), int(kv.get("r_created", 0))
            elif "ttl" in kv:
                ttl, c = int(kv["ttl"]), int(kv.get("created", nows[0]))   # DnsRecord::new(now): created = now
            else:
                continue
            for k, now in enumerate(nows[:4]):
                out.append({"ttl": ttl, "created": c, "expires": (c + 1000 * ttl) & M64, "refresh": (c + 800 * ttl) & M64, "now": now,
                            "ttl2": int(kv.get("o_ttl", 0)), "created2": int(kv.get("o_created", 0)), "pct": (100, 80, 85, 90)[k], "query": b["query"]})
            if len(nows) == 1:
                out.append(dict(out[-1], pct=80))
    return out[:24]


def translator_validation(scratch, mir, seed, log_dir, extra=None):
    """DESIGN 2.6b: SMT summaries vs the natively compiled functions on concrete vectors."""
    t0 = time.time()
    fail = lambda why: {"engine": "B:mirslice/z3+cvc5", "query": "b_translator_validation", "status": "inconclusive", "detail": why,
                        "queries": 0, "nontrivial": 0, "solver_s": 0.0, "functions": [], "assumptions": [], "wall_s": round(time.time() - t0, 1)}
    tvd = os.path.join(scratch, "tv")
    os.makedirs(tvd, exist_ok=True)
    tool = os.path.join(VERIF, "mirslice", "tv.py")
    gen_cmd = ["python3-vt", tool, "gen", str(seed), tvd]
    if extra:
        json.dump(extra, open(os.path.join(tvd, "extra.json"), "w"))
        gen_cmd.append(os.path.join(tvd, "extra.json"))
    r = subprocess.run(gen_cmd, capture_output=True, text=True)
    if r.returncode != 0:
        return fail("vector generation failed: " + r.stderr[-200:])
    for mod in ("dns_parser", "service_info"):
        with open(os.path.join(scratch, "src", mod + ".rs"), "a") as f:
            f.write(open(os.path.join(tvd, f"tv_{mod}.rs")).read())
    env = dict(os.environ, CARGO_NET_OFFLINE="true", CARGO_TARGET_DIR=os.path.join(CACHE, "native-target"))
    env.pop("RUSTUP_TOOLCHAIN", None)
    nat = os.path.join(tvd, "native.txt")
    with open(nat, "w") as f:
        c = subprocess.run(["cargo", "test", "--offline", "--lib", "verif_tv", "--", "--nocapture", "--test-threads", "1"],
                           cwd=scratch, env=env, stdout=f, stderr=subprocess.STDOUT, timeout=1200)
    if c.returncode != 0:
        return fail("native run failed (struct literal no longer matches the record types?): " + open(nat, errors="replace").read()[-300:])
    out = os.path.join(tvd, "out.json")
    r = subprocess.run(["python3-vt", tool, "cmp", mir, os.path.join(tvd, "vectors.json"), nat, out], capture_output=True, text=True, timeout=1200)
    if r.returncode != 0 or not os.path.exists(out):
        return fail("comparison crashed: " + (r.stderr or r.stdout)[-300:])
    res = json.load(open(out))
    res["wall_s"] = round(time.time() - t0, 1)
    if extra:
        n0 = res.get("vectors", 0) - len(extra)
        rows = {}
        for l in open(nat, errors="replace"):
            if "TV|" in l:
                p = l[l.index("TV|"):].strip().split("|")
                if int(p[2]) >= n0:
                    rows.setdefault(int(p[2]) - n0, []).append(f"{p[1]} -> " + " ".join(p[3:]))
        res["extra"] = [{"vector": e, "native": rows.get(i, []), "encoding_agrees": (n0 + i) not in res.get("mismatch_indices", [])} for i, e in enumerate(extra)]
    return res


def run_property(prop, tier, seed, log_dir, only=None):
    if prop not in PROPS_WITH_SPECS:
        return []
    if only is not None:
        only = [o for o in only if not o.startswith(("c0", "c1", "c2")) or True]
    t0 = time.time()
    s, mir, err = dump_mir(prop)
    if s is None:
        return [{"engine": "B:mirslice/z3+cvc5", "query": "mir-dump", "status": "inconclusive", "detail": err,
                 "queries": 0, "nontrivial": 0, "solver_s": 0.0, "functions": [], "assumptions": []}]
    os.makedirs(log_dir, exist_ok=True)
    out = os.path.join(log_dir, f"mirslice-{prop}.json")
    try:
        cmd = ["python3-vt", os.path.join(VERIF, "mirslice", "run_specs.py"), prop, tier, str(seed), mir, out]
        if only:
            cmd.append(",".join(only))
        r = subprocess.run(cmd, capture_output=True, text=True, timeout=3000 if tier == "thorough" else 1500)
        if r.returncode != 0 or not os.path.exists(out):
            return [{"engine": "B:mirslice/z3+cvc5", "query": "mirslice", "status": "inconclusive",
                     "detail": "mirslice crashed: " + (r.stderr or r.stdout)[-400:],
                     "queries": 0, "nontrivial": 0, "solver_s": 0.0, "functions": [], "assumptions": []}]
        data = json.load(open(out))
        if prop in TV_PROPS and not only:
            extra = vectors_from_models(data["results"])
            tv = translator_validation(s, mir, seed, log_dir, extra)
            data["results"].append(tv)
            # replay before reporting: a counterexample counts only if the compiled functions behave at its inputs
            # as the encoding says (otherwise the encoding is wrong for this tree: no verdict)
            for b in data["results"]:
                if b.get("status") == "failed" and b is not tv:
                    mine = [e for e in tv.get("extra", []) if e["vector"].get("query") == b["query"]]
                    if tv["status"] != "held":
                        b["status"] = "inconclusive"
                        b["detail"] = "counterexample not confirmed natively (translator validation: " + tv["detail"][:160] + "); was: " + b["detail"][:200]
                    elif mine:
                        b["native_replay"] = mine
    finally:
        overlay.remove_scratch(s)
    res = data["results"]
    for b in res:
        b["mir_dump_s"] = round(time.time() - t0 - sum(x.get("wall_s", 0) for x in res), 1)
        if b["status"] == "failed":
            # replay artefact: the satisfying assignment, re-checked by both solvers (agreement is
            # required for a `failed` status), written as a trail file
            os.makedirs(os.path.join(VERIF, "replays"), exist_ok=True)
            p = os.path.join(VERIF, "replays", f"{prop}-{b['query']}.txt")
            with open(p, "w") as f:
                f.write(f"# Engine B counterexample for {b['query']} (property {prop}); z3 and cvc5 agree (sat)\n")
                for w in b.get("witness", []):
                    f.write(f"check: {w['check']}\nmodel: {w['model']}\n\n")
                f.write("functions: " + ", ".join(b.get("functions", [])) + "\n")
                for e in b.get("native_replay", []):
                    f.write("\nnative replay (cargo test of the working tree, dev profile) at " + json.dumps({k: v for k, v in e["vector"].items() if k != "query"}) + ":\n")
                    f.write("  encoding agrees with the compiled functions: " + str(e["encoding_agrees"]) + "\n")
                    for row in e["native"]:
                        f.write("  " + row + "   (return, ttl, created, expires, refresh after the call)\n")
            b["replay_path"] = p
        print(f"[{prop}] {b['query']}: {b['status']} {b['detail'][:200]} ({b.get('wall_s', 0)} s, {b['queries']} queries)", flush=True)
    return res
