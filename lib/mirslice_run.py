"""Engine B driver: regenerate MIR from /repo's working tree, run the property's queries."""
import json
import os
import subprocess
import time

import overlay

VERIF = os.path.dirname(os.path.dirname(os.path.abspath(__file__)))
CACHE = os.environ.get("VERIF_CACHE", os.path.join(VERIF, ".cache"))
PROPS_WITH_SPECS = {"C16", "C18", "C01", "C05", "C07", "C08", "C10", "C11", "C12", "C15", "C19", "C20"}


def dump_mir(tag):
    """cargo +nightly rustc -Zunpretty=mir on a scratch copy (dev profile semantics: overflow checks on)."""
    s = overlay.make_scratch("mir-" + tag, harness=False)
    out = os.path.join(s, "mir.txt")
    env = dict(os.environ)
    env["CARGO_NET_OFFLINE"] = "true"
    env["CARGO_TARGET_DIR"] = os.path.join(CACHE, "mir-target-" + str(os.getpid() % 8))
    env.pop("RUSTUP_TOOLCHAIN", None)
    with open(out, "w") as f:
        r = subprocess.run(["cargo", "+nightly", "rustc", "--offline", "--lib", "--no-default-features", "--",
                            "-Zunpretty=mir", "-C", "debug-assertions=off", "-C", "overflow-checks=on"],
                           cwd=s, env=env, stdout=f, stderr=subprocess.PIPE, text=True, timeout=900)
    if r.returncode != 0 or os.path.getsize(out) < 10000:
        overlay.remove_scratch(s)
        return None, None, "MIR dump failed: " + r.stderr[-400:]
    return s, out, ""


TV_PROPS = {"C05", "C07", "C10", "C11"}   # properties whose queries rest on summaries of DnsRecord / Probe methods


def translator_validation(scratch, mir, seed, log_dir):
    """DESIGN 2.6b: SMT summaries vs the natively compiled functions on concrete vectors."""
    t0 = time.time()
    fail = lambda why: {"engine": "B:mirslice/z3+cvc5", "query": "b_translator_validation", "status": "inconclusive", "detail": why,
                        "queries": 0, "nontrivial": 0, "solver_s": 0.0, "functions": [], "assumptions": [], "wall_s": round(time.time() - t0, 1)}
    tvd = os.path.join(scratch, "tv")
    os.makedirs(tvd, exist_ok=True)
    tool = os.path.join(VERIF, "mirslice", "tv.py")
    r = subprocess.run(["python3-vt", tool, "gen", str(seed), tvd], capture_output=True, text=True)
    if r.returncode != 0:
        return fail("vector generation failed: " + r.stderr[-200:])
    for mod in ("dns_parser", "service_info"):
        with open(os.path.join(scratch, "src", mod + ".rs"), "a") as f:
            f.write(open(os.path.join(tvd, f"tv_{mod}.rs")).read())
    env = dict(os.environ, CARGO_NET_OFFLINE="true", CARGO_TARGET_DIR=os.path.join(CACHE, "native-target"))
    env.pop("RUSTUP_TOOLCHAIN", None)
    nat = os.path.join(tvd, "native.txt")
    with open(nat, "w") as f:
        c = subprocess.run(["cargo", "test", "--offline", "--lib", "verif_tv", "--", "--nocapture", "--test-threads", "1"],
                           cwd=scratch, env=env, stdout=f, stderr=subprocess.STDOUT, timeout=1200)
    if c.returncode != 0:
        return fail("native run failed (struct literal no longer matches the record types?): " + open(nat, errors="replace").read()[-300:])
    out = os.path.join(tvd, "out.json")
    r = subprocess.run(["python3-vt", tool, "cmp", mir, os.path.join(tvd, "vectors.json"), nat, out], capture_output=True, text=True, timeout=1200)
    if r.returncode != 0 or not os.path.exists(out):
        return fail("comparison crashed: " + (r.stderr or r.stdout)[-300:])
    res = json.load(open(out))
    res["wall_s"] = round(time.time() - t0, 1)
    return res


def run_property(prop, tier, seed, log_dir, only=None):
    if prop not in PROPS_WITH_SPECS:
        return []
    if only is not None:
        only = [o for o in only if not o.startswith(("c0", "c1", "c2")) or True]
    t0 = time.time()
    s, mir, err = dump_mir(prop)
    if s is None:
        return [{"engine": "B:mirslice/z3+cvc5", "query": "mir-dump", "status": "inconclusive", "detail": err,
                 "queries": 0, "nontrivial": 0, "solver_s": 0.0, "functions": [], "assumptions": []}]
    os.makedirs(log_dir, exist_ok=True)
    out = os.path.join(log_dir, f"mirslice-{prop}.json")
    try:
        cmd = ["python3-vt", os.path.join(VERIF, "mirslice", "run_specs.py"), prop, tier, str(seed), mir, out]
        if only:
            cmd.append(",".join(only))
        r = subprocess.run(cmd, capture_output=True, text=True, timeout=3000 if tier == "thorough" else 1500)
        if r.returncode != 0 or not os.path.exists(out):
            return [{"engine": "B:mirslice/z3+cvc5", "query": "mirslice", "status": "inconclusive",
                     "detail": "mirslice crashed: " + (r.stderr or r.stdout)[-400:],
                     "queries": 0, "nontrivial": 0, "solver_s": 0.0, "functions": [], "assumptions": []}]
        data = json.load(open(out))
        if prop in TV_PROPS and not only:
            data["results"].append(translator_validation(s, mir, seed, log_dir))
    finally:
        overlay.remove_scratch(s)
    res = data["results"]
    for b in res:
        b["mir_dump_s"] = round(time.time() - t0 - sum(x.get("wall_s", 0) for x in res), 1)
        if b["status"] == "failed":
            # replay artefact: the satisfying assignment, re-checked by both solvers (agreement is
            # required for a `failed` status), written as a trail file
            os.makedirs(os.path.join(VERIF, "replays"), exist_ok=True)
            p = os.path.join(VERIF, "replays", f"{prop}-{b['query']}.txt")
            with open(p, "w") as f:
                f.write(f"# Engine B counterexample for {b['query']} (property {prop}); z3 and cvc5 agree (sat)\n")
                for w in b.get("witness", []):
                    f.write(f"check: {w['check']}\nmodel: {w['model']}\n\n")
                f.write("functions: " + ", ".join(b.get("functions", [])) + "\n")
            b["replay_path"] = p
        print(f"[{prop}] {b['query']}: {b['status']} {b['detail'][:200]} ({b.get('wall_s', 0)} s, {b['queries']} queries)", flush=True)
    return res
