"""Scratch-copy overlay: /repo working tree + cfg(kani) harness modules.

No source hook is needed in /repo: every check copies the *current* working
tree to a scratch directory and appends, to each module under test,

    #[cfg(kani)] #[path = "<verif>/harness/<m>_harness.rs"] mod verif_kani;

so the harness is a child module (sees private items).  With model_maps=True
the `std::collections::{HashMap,HashSet}` imports of the crate's modules are
redirected to the association-list model in harness/support.rs (see DESIGN 2.4).
"""
import os
import re
import shutil
import subprocess
import sys
import time

VERIF = os.path.dirname(os.path.dirname(os.path.abspath(__file__)))
REPO = os.environ.get("VERIF_REPO", "/repo")
SCRATCH_ROOT = os.environ.get("VERIF_SCRATCH", "/var/tmp/verif-scratch")

MODULES = ["dns_parser", "dns_cache", "service_info", "service_daemon"]


class OverlayError(Exception):
    pass


def _rewrite_std_import(src, fname):
    """Inside the (first) `use std::{ ... };` item rename the hash containers."""
    m = re.search(r"^use std::\{\n(.*?)^\};\n", src, re.S | re.M)
    if not m:
        raise OverlayError(f"{fname}: `use std::{{..}}` block not recognised")
    block = m.group(0)
    if "HashMap" not in block and "HashSet" not in block:
        raise OverlayError(f"{fname}: no HashMap/HashSet in std import block")
    new = block
    new = re.sub(r"\bhash_map::Entry\b", "hash_map::Entry as StdEntry", new)
    new = re.sub(r"\bHashMap\b", "HashMap as StdHashMap", new)
    new = re.sub(r"\bHashSet\b", "HashSet as StdHashSet", new)
    add = "#[allow(unused_imports)]\nuse crate::verif_support::vmap::{Entry, HashMap, HashSet};\n"
    return src.replace(block, new + add, 1)


CLOCK_SIG = "pub(crate) fn current_time_millis() -> u64 {"


def _env_substitution(dst):
    """Environment = harness-owned variables (DESIGN 2.4): the wall clock and the probe jitter.
    Textual, so that verification *and* native playback (which ignores kani::stub) see the same
    deterministic environment."""
    lib = os.path.join(dst, "src", "lib.rs")
    src = open(lib).read()
    if src.count(CLOCK_SIG) != 1:
        raise OverlayError("lib.rs: current_time_millis() signature not recognised")
    src = src.replace(
        CLOCK_SIG,
        "#[cfg(kani)]\npub(crate) fn current_time_millis() -> u64 {\n    crate::verif_support::clock()\n}\n\n"
        "#[cfg(not(kani))]\n" + CLOCK_SIG, 1)
    open(lib, "w").write(src)
    for m in MODULES:
        p = os.path.join(dst, "src", m + ".rs")
        t = open(p).read()
        if "fastrand::" in t:
            n_all = t.count("fastrand::")
            n_known = t.count("fastrand::u64(")
            if n_all != n_known:
                raise OverlayError(f"{m}.rs: unrecognised fastrand call shape")
            t = t.replace("fastrand::u64(", "crate::verif_jitter(")
            open(p, "w").write(t)
    src = open(lib).read()
    src += ("\n#[cfg(kani)]\npub(crate) fn verif_jitter(r: core::ops::Range<u64>) -> u64 {\n"
            "    crate::verif_support::jitter(r)\n}\n"
            "#[cfg(not(kani))]\npub(crate) fn verif_jitter(r: core::ops::Range<u64>) -> u64 {\n"
            "    fastrand::u64(r)\n}\n")
    open(lib, "w").write(src)


def make_scratch(tag, model_maps=False, harness=True, repo=None, harness_dir=None, extra_tests=None):
    """Copy the working tree of /repo and apply the overlay. Returns the path.
    harness_dir: use a private copy of the harness sources (replay); extra_tests: {module: rust text}
    appended to that module's harness copy."""
    repo = repo or REPO
    os.makedirs(SCRATCH_ROOT, exist_ok=True)
    dst = os.path.join(SCRATCH_ROOT, f"{tag}-{os.getpid()}-{int(time.time()*1000)%100000000}")
    if os.path.exists(dst):
        shutil.rmtree(dst)
    os.makedirs(dst)
    r = subprocess.run(
        ["rsync", "-a", "--exclude", "/target", "--exclude", "/.git", repo.rstrip("/") + "/", dst + "/"],
        capture_output=True, text=True)
    if r.returncode != 0:
        raise OverlayError("rsync failed: " + r.stderr)
    # workspace isolation + offline
    os.makedirs(os.path.join(dst, ".cargo"), exist_ok=True)
    with open(os.path.join(dst, ".cargo", "config.toml"), "w") as f:
        f.write("[net]\noffline = true\n")
    if not harness:
        return dst
    _env_substitution(dst)
    hdir = os.path.join(VERIF, "harness")
    if extra_tests:
        priv = os.path.join(dst, "verif_harness")
        shutil.copytree(hdir, priv)
        hdir = priv
        for mod, text in extra_tests.items():
            with open(os.path.join(hdir, mod + "_harness.rs"), "a") as f:
                f.write("\n" + text + "\n")
    for m in MODULES:
        p = os.path.join(dst, "src", m + ".rs")
        if not os.path.exists(p):
            raise OverlayError(f"src/{m}.rs missing in {repo}")
        src = open(p).read()
        if model_maps:
            src = _rewrite_std_import(src, m + ".rs")
        # Engine workaround (DESIGN 7, Kani 0.68): a `Vec<Box<dyn DnsRecordExt>>` that starts with
        # capacity 0 loses the vtable half of the first element it stores.  `Vec::new()` and
        # `Vec::with_capacity(n)` differ only in allocation strategy, never in observable
        # behaviour, so the scratch copy pre-sizes every vector.
        if not os.environ.get("VERIF_NO_PRESIZE"):
            src = re.sub(r"\bVec::new\(\)", "Vec::with_capacity(8)", src)
        if m == "dns_cache" and not os.environ.get("VERIF_NO_PRESIZE"):
            src = src.replace(".or_default()", ".or_insert_with(|| Vec::with_capacity(8))")
        hp = os.path.join(hdir, m + "_harness.rs")
        if os.path.exists(hp):
            src += f'\n#[cfg(kani)]\n#[path = "{hp}"]\npub(crate) mod verif_kani;\n'
        open(p, "w").write(src)
    lib = os.path.join(dst, "src", "lib.rs")
    src = open(lib).read()
    if "#![forbid(unsafe_code)]" in src:
        # lint only; stubs in support.rs need `unsafe` (transmute of Utf8Error, static mut clock)
        src = src.replace("#![forbid(unsafe_code)]", "// (overlay) #![forbid(unsafe_code)]", 1)
    sp = os.path.join(hdir, "support.rs")
    src += f'\n#[cfg(kani)]\n#[path = "{sp}"]\npub(crate) mod verif_support;\n'
    if model_maps:
        src += "\n#[cfg(kani)]\npub(crate) const VERIF_MODEL_MAPS: bool = true;\n"
    open(lib, "w").write(src)
    return dst


def remove_scratch(path):
    if path and path.startswith(SCRATCH_ROOT) and os.path.isdir(path):
        shutil.rmtree(path, ignore_errors=True)


if __name__ == "__main__":
    mm = "--model-maps" in sys.argv
    print(make_scratch("manual", model_maps=mm))
