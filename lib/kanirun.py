"""Engine A driver: run `cargo kani` harnesses on a scratch overlay and parse the verdicts."""
import fcntl
import hashlib
import json
import os
import re
import resource
import signal
import subprocess
import sys
import time

VERIF = os.path.dirname(os.path.dirname(os.path.abspath(__file__)))
CACHE = os.environ.get("VERIF_CACHE", os.path.join(VERIF, ".cache"))
KANI_TOOLCHAIN_ENV = {}

HARNESS_FILES = ["dns_parser_harness.rs", "dns_cache_harness.rs",
                 "service_info_harness.rs", "service_daemon_harness.rs"]

META_KEYS = {"harness", "property", "tier", "bound", "unwind", "outside", "stubs", "assumes",
             "covers", "functions", "termination", "maps", "timeout", "mem", "oracle",
             "known", "expect", "lift", "note"}


def parse_harness_meta():
    """Scan harness files for `// @key value` blocks that precede `#[kani::proof]`."""
    out = {}
    for fn in HARNESS_FILES:
        p = os.path.join(VERIF, "harness", fn)
        if not os.path.exists(p):
            continue
        cur = None
        for line in open(p):
            m = re.match(r"\s*// @(\w+)\s*(.*)$", line)
            if m:
                k, v = m.group(1), m.group(2).strip()
                if k == "harness":
                    cur = {"harness": v, "file": fn, "module": fn[:-len("_harness.rs")]}
                    out[v] = cur
                elif cur is not None:
                    if k not in META_KEYS:
                        raise ValueError(f"{fn}: unknown meta key @{k}")
                    if k in cur:
                        cur[k] += " " + v
                    else:
                        cur[k] = v
            elif re.match(r"\s*fn\s+\w+\s*\(", line):
                if cur is not None:
                    name = re.match(r"\s*fn\s+(\w+)", line).group(1)
                    if name != cur["harness"]:
                        raise ValueError(f"{fn}: meta @harness {cur['harness']} precedes fn {name}")
                cur = None
    for h in out.values():
        h["properties"] = h.get("property", "").split()
        h["tiers"] = (h.get("tier") or "quick thorough").split()
        if h["tiers"] == ["quick"]:
            h["tiers"] = ["quick", "thorough"]
        h["cover_list"] = [c.strip() for c in h.get("covers", "").split(",") if c.strip()]
        h["model_maps"] = h.get("maps", "").strip() == "vmap"
    return out


def _limits(mem_gb):
    def f():
        os.setsid()
        b = int(mem_gb * (1 << 30))
        resource.setrlimit(resource.RLIMIT_AS, (b, b))
    return f


def _acquire_slot():
    """One cached Kani target dir per concurrently running harness."""
    d = os.path.join(CACHE, "kani-target")
    os.makedirs(d, exist_ok=True)
    k = 0
    while True:
        lp = os.path.join(d, f"slot-{k}.lock")
        fd = os.open(lp, os.O_CREAT | os.O_RDWR, 0o644)
        try:
            fcntl.flock(fd, fcntl.LOCK_EX | fcntl.LOCK_NB)
            return fd, os.path.join(d, f"slot-{k}")
        except OSError:
            os.close(fd)
            k += 1
            if k > 63:
                time.sleep(1)
                k = 0


STATUS_RE = re.compile(r"^Check (\d+): (\S+)\s*$")


def parse_kani_output(text):
    """Return dict with checks (list), verdict, times, vccs."""
    checks = []
    cur = None
    for line in text.splitlines():
        m = STATUS_RE.match(line)
        if m:
            cur = {"n": int(m.group(1)), "id": m.group(2)}
            checks.append(cur)
            continue
        if cur is not None:
            s = line.strip()
            if s.startswith("- Status:"):
                cur["status"] = s.split(":", 1)[1].strip()
            elif s.startswith("- Description:"):
                cur["desc"] = s.split(":", 1)[1].strip().strip('"')
            elif s.startswith("- Location:"):
                cur["loc"] = s.split(":", 1)[1].strip()
            elif s == "":
                cur = None
    res = {"checks": checks}
    m = re.search(r"VERIFICATION:- (\w+)", text)
    res["verdict"] = m.group(1) if m else None
    m = re.search(r"Verification Time: ([\d.]+)s", text)
    res["verification_time_s"] = float(m.group(1)) if m else None
    m = re.search(r"Runtime Symex: ([\d.e+-]+)s", text)
    res["symex_s"] = float(m.group(1)) if m else None
    sol = re.findall(r"Runtime decision procedure: ([\d.e+-]+)s", text)
    res["solver_s"] = sum(float(x) for x in sol) if sol else None
    m = re.search(r"Generated (\d+) VCC\(s\), (\d+) remaining after simplification", text)
    if m:
        res["vccs"] = int(m.group(1))
        res["vccs_remaining"] = int(m.group(2))
    m = re.search(r"size of program expression: (\d+) steps", text)
    if m:
        res["program_steps"] = int(m.group(1))
    m = re.search(r"(\d+) variables, (\d+) clauses", text)
    if m:
        res["sat_vars"] = int(m.group(1))
        res["sat_clauses"] = int(m.group(2))
    res["stubs_applied"] = re.findall(r"- Stub: (.*)", text)
    m = re.search(r"\*\* (\d+) of (\d+) failed", text)
    if m:
        res["failed_n"] = int(m.group(1))
        res["total_n"] = int(m.group(2))
    m = re.search(r"\*\* (\d+) of (\d+) cover properties satisfied", text)
    if m:
        res["covers_sat"] = int(m.group(1))
        res["covers_total"] = int(m.group(2))
    return res


def classify(meta, parsed, rc, timed_out, text):
    """-> (status, detail) with status in held / failed / inconclusive."""
    if timed_out:
        return "inconclusive", "timeout"
    if parsed["verdict"] is None:
        if "error: could not compile" in text or "error[E" in text:
            return "inconclusive", "compile-error"
        return "inconclusive", "no-verdict (rc=%s; OOM or crash)" % rc
    fails = [c for c in parsed["checks"] if c.get("status") == "FAILURE"]
    undet = [c for c in parsed["checks"] if c.get("status") == "UNDETERMINED"]
    covers = [c for c in parsed["checks"] if ".cover." in c["id"] or c.get("status") in ("SATISFIED", "UNSATISFIABLE")]
    bad_covers = [c for c in covers if c.get("status") not in ("SATISFIED",)]
    parsed["fail_list"] = fails
    parsed["cover_status"] = {c.get("desc", c["id"]): c.get("status") for c in covers}
    if any(c.get("status") == "ERROR" for c in parsed["checks"]):
        return "inconclusive", "cbmc-error"
    if parsed["verdict"] == "SUCCESSFUL":
        if bad_covers:
            return "inconclusive", "vacuous: cover not satisfied: " + ", ".join(
                c.get("desc", c["id"]) for c in bad_covers)
        want = set(meta.get("cover_list", []))
        have = set(parsed["cover_status"].keys())
        missing = [w for w in want if not any(w == h or h.startswith(w) for h in have)]
        if missing:
            return "inconclusive", "declared covers missing from output: " + ", ".join(missing)
        return "held", ""
    # FAILED
    if not fails:
        return "inconclusive", "FAILED without a failing check (%d undetermined)" % len(undet)
    unwind_fails = [c for c in fails if "unwinding assertion" in c.get("desc", "")]
    other = [c for c in fails if c not in unwind_fails]
    if other:
        return "failed", "; ".join("%s @ %s" % (c.get("desc"), c.get("loc")) for c in other[:4])
    # only unwinding assertions failed
    term = meta.get("termination", "")
    locs = " ".join(c.get("loc", "") + " " + c["id"] for c in unwind_fails)
    if term and any(t in locs for t in term.split()):
        return "failed", "unwinding assertion (termination claim): " + "; ".join(
            c.get("loc", "") for c in unwind_fails[:3])
    return "inconclusive", "unwind bound too small: " + "; ".join(c.get("loc", c["id"]) for c in unwind_fails[:3])


def kani_cmd(harness, target_dir, extra=(), module=None):
    fq = f"{module}::verif_kani::{harness}" if module else harness
    return ["cargo", "kani", "--no-default-features", "--harness", fq, "--exact",
            "--target-dir", target_dir,
            "-Z", "stubbing", "-Z", "unstable-options",
            "--no-memory-safety-checks", "--no-assertion-reach-checks",
            ] + list(extra)


def run_harness(meta, scratch, tier, log_dir, timeout_s=None, mem_gb=None, extra=()):
    h = meta["harness"]
    timeout_s = timeout_s or int(meta.get("timeout", "0") or 0) or (600 if tier == "quick" else 2700)
    mem_gb = mem_gb or float(meta.get("mem", "0") or 0) or (12 if tier == "quick" else 24)
    fd, tdir = _acquire_slot()
    os.makedirs(log_dir, exist_ok=True)
    log = os.path.join(log_dir, h + ".log")
    env = dict(os.environ)
    env["CARGO_NET_OFFLINE"] = "true"
    env.pop("RUSTUP_TOOLCHAIN", None)
    t0 = time.time()
    timed_out = False
    cmd = kani_cmd(h, tdir, extra, module=meta.get("module"))
    with open(log, "w") as lf:
        lf.write("# " + " ".join(cmd) + "\n# cwd=" + scratch + "\n")
        lf.flush()
        p = subprocess.Popen(cmd, cwd=scratch, stdout=lf, stderr=subprocess.STDOUT, env=env,
                             preexec_fn=_limits(mem_gb))
        try:
            rc = p.wait(timeout=timeout_s)
        except subprocess.TimeoutExpired:
            timed_out = True
            try:
                os.killpg(p.pid, signal.SIGKILL)
            except ProcessLookupError:
                pass
            rc = p.wait()
    wall = time.time() - t0
    fcntl.flock(fd, fcntl.LOCK_UN)
    os.close(fd)
    text = open(log, errors="replace").read()
    parsed = parse_kani_output(text)
    status, detail = classify(meta, parsed, rc, timed_out, text)
    return {"harness": h, "status": status, "detail": detail, "wall_s": round(wall, 1), "rc": rc,
            "log": log, "parsed": parsed, "timeout_s": timeout_s, "mem_gb": mem_gb}
