"""known_findings.json: committed list of genuine defects recorded (state=open) or repaired (state=fixed).
Never written at run time."""
import json
import os

VERIF = os.path.dirname(os.path.dirname(os.path.abspath(__file__)))


def load():
    p = os.path.join(VERIF, "known_findings.json")
    if not os.path.exists(p):
        return {"findings": []}
    return json.load(open(p))


def entry(kf, prop, kid):
    for e in kf.get("findings", []):
        if e["id"] == kid and prop in e["properties"]:
            return e
    return None


def matches(kf, prop, kid, result):
    """A failed Engine A harness matches an *open* finding iff every failing check matches the
    finding's signature (function + message substring). Anything else is a new violation."""
    e = entry(kf, prop, kid)
    if e is None or e.get("state") != "open":
        return False
    fails = result["parsed"].get("fail_list", [])
    if not fails:
        return False
    sigs = e.get("signatures", [])
    for c in fails:
        text = (c.get("desc", "") + " @ " + c.get("loc", ""))
        if not any(all(tok in text for tok in s) for s in sigs):
            return False
    return True


def matches_b(kf, prop, br):
    e = entry(kf, prop, br.get("known"))
    if e is None or e.get("state") != "open":
        return False
    w = br.get("witness_class", "")
    return w in e.get("witness_classes", [])
