"""Evidence writer (schema: /root/.vp/EVIDENCE.schema.json)."""
import json
import os

VERIF = os.path.dirname(os.path.dirname(os.path.abspath(__file__)))


def _split(s):
    return [x.strip() for x in (s or "").split(";") if x.strip()] if ";" in (s or "") else ([s.strip()] if s and s.strip() else [])


def write(prop, tier, seed, a_results, b_results, wall, n_viol=0, known=()):
    samples = []
    evaluations = 0
    distinct = 0
    functions = set()
    stubs = set()
    assumptions = set()
    solver_s = 0.0
    symex_s = 0.0
    for r in a_results:
        m = r["meta"]
        p = r["parsed"]
        nchecks = len([c for c in p.get("checks", []) if c.get("status") in ("SUCCESS", "FAILURE", "SATISFIED", "UNSATISFIABLE")])
        evaluations += nchecks
        covers_ok = [k for k, v in p.get("cover_status", {}).items() if v == "SATISFIED"]
        if r["status"] in ("held", "failed"):
            distinct += len(covers_ok)
        for f in (m.get("functions") or "").split(","):
            if f.strip():
                functions.add(f.strip())
        for s in (m.get("stubs") or "").split(","):
            if s.strip():
                stubs.add(s.strip())
        if m.get("assumes"):
            assumptions.add(f"{m['harness']}: {m['assumes']}")
        solver_s += p.get("solver_s") or 0.0
        symex_s += p.get("symex_s") or 0.0
        samples.append({
            "engine": "A:kani-0.68/cbmc-6.11/cadical",
            "harness": m["harness"],
            "module": m["module"],
            "result": r["status"],
            "detail": r["detail"],
            "bound": m.get("bound"),
            "unwind": m.get("unwind"),
            "oracle": m.get("oracle"),
            "outside_claim": m.get("outside"),
            "stubs": m.get("stubs"),
            "model_maps": m["model_maps"],
            "functions": m.get("functions"),
            "checks_decided": nchecks,
            "vccs": p.get("vccs"),
            "vccs_after_simplification": p.get("vccs_remaining"),
            "program_steps": p.get("program_steps"),
            "sat_vars": p.get("sat_vars"),
            "sat_clauses": p.get("sat_clauses"),
            "symex_s": p.get("symex_s"),
            "solver_s": p.get("solver_s"),
            "wall_s": r["wall_s"],
            "covers": p.get("cover_status"),
            "stubs_applied_by_kani": p.get("stubs_applied"),
            "replay": r.get("replay"),
        })
    for b in b_results:
        evaluations += b.get("queries", 0)
        distinct += b.get("nontrivial", 0)
        solver_s += b.get("solver_s", 0.0)
        for f in b.get("functions", []):
            functions.add(f)
        for s in b.get("assumptions", []):
            assumptions.add(f"{b['query']}: {s}")
        samples.append({k: v for k, v in b.items() if k not in ("smt",)})
    ev = {
        "property_id": prop,
        "tier": tier,
        "seed": seed,
        "level": "model_checking",
        "coverage": {
            "evaluations": evaluations,
            "distinct_nontrivial": distinct,
            "rule": ("evaluations = verification conditions / SMT queries decided by a solver in this run "
                     "(CBMC property checks incl. cover witnesses for Engine A, sat/unsat queries for Engine B); "
                     "distinct_nontrivial = distinct scenario classes whose reachability the solver witnessed in this run "
                     "(kani::cover! SATISFIED per harness; Engine B queries whose vacuity twin was sat)"),
            "samples": samples,
            "exhaustive": False,
            "bounded": True,
            "functions_encoded": sorted(functions),
            "stubs": sorted(stubs),
            "harnesses": len(a_results),
            "mir_queries": len(b_results),
            "solver_time_s": round(solver_s, 2),
            "symex_time_s": round(symex_s, 2),
            "known_findings_reported": list(known),
            "explanation": ("Bounded symbolic verification of the real code: every input inside the per-harness bound is covered "
                            "by the solver verdict; nothing outside the bound is claimed. See each sample's bound/outside_claim."),
        },
        "assumptions": sorted(assumptions) + [
            "64-bit target; clock < 2^62 ms; dev-profile overflow checks; pointer-validity checks inside std are off (crate forbids unsafe)",
            "trusted: rustc, Kani 0.68 MIR->GOTO, CBMC 6.11 + cadical; mirslice translator (validated against compiled code each run), z3 4.8.12 cross-checked by cvc5 1.0",
        ],
        "wall_s": round(wall, 1),
        "violations": n_viol,
    }
    os.makedirs(os.path.join(VERIF, "evidence"), exist_ok=True)
    tmp = os.path.join(VERIF, "evidence", prop + ".json.tmp")
    with open(tmp, "w") as f:
        json.dump(ev, f, indent=1, default=str)
    os.replace(tmp, os.path.join(VERIF, "evidence", prop + ".json"))
