
// ---------------------------------------------------------------------------
// C01 (continued): pointer graphs and the 255-byte name cap
// ---------------------------------------------------------------------------

// @harness c01_read_name_ptrs_8
// @property C01 C15
// @tier quick
// @functions DnsIncoming::read_name
// @bound buffer of 8 bytes made only of compression pointers and terminators: every even byte is 0xC0 or 0x00, every odd byte a symbolic target 0..=7; start offset symbolic in 0..=8: all pointer graphs over four 2-byte slots (self, forward, backward, chains, cycles)
// @unwind 12 (ghost budget N+1 = 9 hops fires first)
// @termination read_name
// @oracle Result, never panic, always terminates; on Ok the name is empty and start < cursor <= N
// @outside labels mixed with pointers (c01_read_name_4/5/8)
// @stubs fmt_format, utf8_model(+tick), u16_from_be_slice(+tick)
// @covers ok_chain, err
// @lift name
#[kani::proof]
#[kani::unwind(12)]
#[kani::stub(alloc::fmt::format, crate::verif_support::fmt_format)]
#[kani::stub(core::str::from_utf8, crate::verif_support::utf8_model)]
#[kani::stub(super::u16_from_be_slice, u16_from_be_slice_ticking)]
fn c01_read_name_ptrs_8() {
    const N: usize = 8;
    let mut bytes: [u8; N] = kani::any();
    let mut i = 0;
    while i < N {
        bytes[i] = if kani::any() { 0xC0 } else { 0x00 };
        kani::assume(bytes[i + 1] < N as u8);
        i += 2;
    }
    let off: usize = kani::any();
    kani::assume(off <= N);
    crate::verif_support::set_step_budget(N as u32 + 1);
    let mut inc = mk_incoming(bytes.to_vec(), off, 0);
    let r = inc.read_name();
    match &r {
        Ok(name) => {
            assert!(inc.offset <= N && inc.offset > off);
            assert!(name.is_empty(), "a name made of pointers and terminators has no label");
            kani::cover!(off == 6 && bytes[6] == 0xC0 && bytes[7] == 4 && bytes[4] == 0xC0 && bytes[5] == 2 && bytes[2] == 0xC0 && bytes[3] == 0, "ok_chain");
        }
        Err(_) => {
            kani::cover!(true, "err");
        }
    }
    core::mem::forget(r);
    core::mem::forget(inc);
}

// @harness c01_name_cap
// @property C01 C15
// @tier thorough
// @functions DnsIncoming::read_name
// @bound a 262-byte buffer: 129 one-byte labels (one symbolic ASCII letter) + terminator at offset 0, and at offset 259 a pointer to offset 0 (concrete shape, symbolic letter); the name is read through the pointer and directly
// @unwind 134
// @oracle a name longer than 255 bytes is refused whether it is reached directly or through a pointer ("never a name longer than the datagram could encode"; RFC 1035 2.3.4)
// @stubs fmt_format, utf8_model
// @covers refused_via_pointer
// @timeout 2400
#[kani::proof]
#[kani::unwind(134)]
#[kani::stub(alloc::fmt::format, crate::verif_support::fmt_format)]
#[kani::stub(core::str::from_utf8, crate::verif_support::utf8_model)]
fn c01_name_cap() {
    let c: u8 = kani::any();
    kani::assume(c >= b'a' && c <= b'z');
    let mut d = Vec::with_capacity(262);
    let mut i = 0;
    while i < 129 {
        d.push(1);
        d.push(c);
        i += 1;
    }
    d.push(0);
    d.push(0xC0);
    d.push(0x00);
    crate::verif_support::set_step_budget(400);
    let via_ptr: bool = kani::any();
    let mut inc = mk_incoming(d, if via_ptr { 259 } else { 0 }, 0);
    let r = inc.read_name();
    match &r {
        Ok(name) => {
            assert!(name.len() <= 255, "a name longer than 255 bytes was produced");
        }
        Err(_) => {
            kani::cover!(via_ptr, "refused_via_pointer");
        }
    }
    core::mem::forget(r);
    core::mem::forget(inc);
}

// ---------------------------------------------------------------------------
// C06 / C10 - the PTR answer and its additionals; legacy unicast
// ---------------------------------------------------------------------------

// @harness c06_legacy_clear
// @property C06
// @tier quick
// @functions DnsOutgoing::clear_cache_flush_bits, DnsOutgoing::add_answer_at_time, DnsOutgoing::add_additional_answer, DnsOutgoing::add_authority
// @bound a response with one answer (SRV), one authority (TXT) and one additional (A), each with symbolic class (flush bit on or off), TTL, port / address
// @oracle after clear_cache_flush_bits no record in any section has the cache-flush flag; class, TTL, type and rdata are unchanged; counts unchanged
// @stubs clock(overlay)
// @covers all_had_flush
#[kani::proof]
#[kani::unwind(10)]
fn c06_legacy_clear() {
    set_clock(any_time());
    let (c1, c2, c3): (u16, u16, u16) = (kani::any(), kani::any(), kani::any());
    let (t1, t2, t3): (u32, u32, u32) = (kani::any(), kani::any(), kani::any());
    let port: u16 = kani::any();
    let ip: u32 = kani::any();
    let mut out = DnsOutgoing::new(FLAGS_QR_RESPONSE | FLAGS_AA);
    out.add_answer_at_time(DnsSrv::new("a.local.", c1, t1, 0, 0, port, "b.local.".to_string()), 0);
    out.add_authority(DnsTxt::new("a.local.", c2, t2, vec![0]).boxed());
    out.add_additional_answer(DnsAddress::new("b.local.", RRType::A, c3, t3, IpAddr::V4(Ipv4Addr::from(ip)), InterfaceId::default()));
    out.clear_cache_flush_bits();
    assert!(out.answers.len() == 1 && out.authorities.len() == 1 && out.additionals.len() == 1);
    let a = &out.answers[0].0;
    assert!(!a.get_cache_flush() && a.get_class() == c1 & 0x7FFF && a.get_record().ttl == t1);
    assert!(a.any().downcast_ref::<DnsSrv>().unwrap().port == port);
    let b = &out.authorities[0];
    assert!(!b.get_cache_flush() && b.get_class() == c2 & 0x7FFF && b.get_record().ttl == t2);
    let c = &out.additionals[0];
    assert!(!c.get_cache_flush() && c.get_class() == c3 & 0x7FFF && c.get_record().ttl == t3);
    kani::cover!(c1 & 0x8000 != 0 && c2 & 0x8000 != 0 && c3 & 0x8000 != 0, "all_had_flush");
    core::mem::forget(out);
}
