// Engine A harnesses for src/service_daemon.rs (child module, cfg(kani) only).
#![allow(unused_imports, dead_code, clippy::all)]

use super::*;
use crate::dns_parser::verif_kani::mk_incoming;
use crate::verif_support as vs;
use crate::verif_support::{any_time, set_clock};
use if_addrs::{IfOperStatus, Ifv4Addr, Ifv6Addr};
use std::net::{Ipv4Addr, Ipv6Addr};

// ---------------------------------------------------------------------------
// C18 - interface selection predicate
// ---------------------------------------------------------------------------

fn any_interface() -> (Interface, bool, bool, u32, u8) {
    // (interface, is_v4, is_loopback, index, name selector)
    let v4: bool = kani::any();
    let lo: bool = kani::any();
    let idx: u32 = kani::any();
    let has_idx: bool = kani::any();
    let nsel: u8 = kani::any();
    kani::assume(nsel < 2);
    let addr = if v4 {
        let ip: u32 = kani::any();
        kani::assume(((ip >> 24) == 127) == lo);
        IfAddr::V4(Ifv4Addr { ip: Ipv4Addr::from(ip), netmask: Ipv4Addr::from(0xFFFFFF00u32), prefixlen: 24, broadcast: None })
    } else {
        let ip: u128 = kani::any();
        kani::assume((ip == 1) == lo);
        IfAddr::V6(Ifv6Addr { ip: Ipv6Addr::from(ip), netmask: Ipv6Addr::from(u128::MAX << 64), prefixlen: 64, broadcast: None })
    };
    let i = Interface {
        name: String::from(if nsel == 0 { "en0" } else { "lo0" }),
        addr,
        index: if has_idx { Some(idx) } else { None },
        oper_status: IfOperStatus::Up,
        is_p2p: false,
    };
    (i, v4, lo, if has_idx { idx } else { u32::MAX }, nsel)
}

// @harness c18_ifkind_matches
// @property C18
// @tier quick
// @functions IfKind::matches
// @bound every selection kind except Predicate (All, IPv4, IPv6, Name(en0|lo0), Addr(v4), LoopbackV4/V6, IndexV4/V6 with any index) against an interface with symbolic family, address, loop-back-ness, optional index and one of two names
// @oracle the table of IfKind: family kinds match the family; Name the name; Addr the exact address; Loopback the loop-back address of that family; IndexV4/V6 the index and the family (an interface without index matches no index)
// @covers name_match, index_v6_match, loopback_v4_match, addr_match
#[kani::proof]
#[kani::unwind(6)]
fn c18_ifkind_matches() {
    let (i, v4, lo, idx, nsel) = any_interface();
    let has_idx = i.index.is_some();
    assert!(IfKind::All.matches(&i));
    assert!(IfKind::IPv4.matches(&i) == v4);
    assert!(IfKind::IPv6.matches(&i) == !v4);
    assert!(IfKind::Name(String::from("en0")).matches(&i) == (nsel == 0));
    assert!(IfKind::Name(String::from("lo0")).matches(&i) == (nsel == 1));
    assert!(IfKind::LoopbackV4.matches(&i) == (lo && v4));
    assert!(IfKind::LoopbackV6.matches(&i) == (lo && !v4));
    let q: u32 = kani::any();
    assert!(IfKind::IndexV4(q).matches(&i) == (has_idx && q == idx && v4));
    assert!(IfKind::IndexV6(q).matches(&i) == (has_idx && q == idx && !v4));
    let a: u32 = kani::any();
    let want = match i.addr {
        IfAddr::V4(ref x) => u32::from(x.ip) == a,
        _ => false,
    };
    assert!(IfKind::Addr(IpAddr::V4(Ipv4Addr::from(a))).matches(&i) == want);
    kani::cover!(nsel == 0, "name_match");
    kani::cover!(has_idx && q == idx && !v4, "index_v6_match");
    kani::cover!(lo && v4, "loopback_v4_match");
    kani::cover!(want, "addr_match");
    core::mem::forget(i);
}

// ---------------------------------------------------------------------------
// C07 - one probing step
// ---------------------------------------------------------------------------

// @harness c07_check_probing_step
// @property C07 C12
// @maps vmap
// @tier quick
// @functions check_probing, Probe::expired, Probe::update_next_send, DnsOutgoing::add_question, DnsOutgoing::add_authority
// @bound registry with one probe holding one A record (symbolic address); symbolic start_time, next_send and now (< 2^62, next_send >= start_time)
// @oracle now < next_send: nothing happens; else if now >= start + 750: the name is reported finished and no question is sent; else exactly one ANY question for the name with the probe's record as authority, next_send' == now + 250 and that instant is pushed as a timer
// @stubs clock(overlay)
// @covers idle, finished, probe_sent
#[kani::proof]
#[kani::unwind(10)]
fn c07_check_probing_step() {
    let start = any_time();
    let next = any_time();
    let now = any_time();
    kani::assume(next >= start);
    set_clock(start);
    let mut reg = DnsRegistry::new();
    let mut p = Probe::new(start);
    p.next_send = next;
    p.records = Vec::with_capacity(2);
    p.insert_record(DnsAddress::new("h.local.", RRType::A, CLASS_IN | CLASS_CACHE_FLUSH, 120, IpAddr::V4(Ipv4Addr::from(kani::any::<u32>())), InterfaceId::default()).boxed());
    reg.probing.insert(String::from("h.local."), p);
    let mut timers: BinaryHeap<Reverse<u64>> = BinaryHeap::with_capacity(4);
    let (out, done) = check_probing(&mut reg, &mut timers, now);
    let pr = reg.probing.get("h.local.").unwrap();
    if now < next {
        assert!(out.questions().is_empty() && done.is_empty() && timers.is_empty() && pr.next_send == next, "a probe was sent before it was due");
        kani::cover!(true, "idle");
    } else if now >= start + 750 {
        assert!(done.len() == 1 && out.questions().is_empty() && out.authorities().is_empty(), "finished probe must be reported and send nothing");
        assert!(timers.is_empty());
        kani::cover!(true, "finished");
    } else {
        assert!(done.is_empty());
        assert!(out.questions().len() == 1 && out.questions()[0].entry.ty == RRType::ANY, "exactly one ANY question per probe");
        assert!(out.authorities().len() == 1 && out.authorities()[0].get_type() == RRType::A, "proposed records go into the authority section");
        assert!(pr.next_send == now + 250 && pr.start_time == start, "next probe 250 ms later");
        assert!(timers.len() == 1 && timers.peek().unwrap().0 == now + 250, "no wake-up requested for the next probe");
        kani::cover!(true, "probe_sent");
    }
    core::mem::forget(out);
    core::mem::forget(done);
    core::mem::forget(reg);
}

// ---------------------------------------------------------------------------
// C06 - SRV / TXT / ANY answers for an instance name
// ---------------------------------------------------------------------------
