def c07_check_probing_paths(ctx):
    q = Q("c07_check_probing_paths", ["check_probing (one probe, first loop iteration)", "Probe::expired", "Probe::update_next_send"],
          "every path of one iteration of check_probing over an ARBITRARY probe (start_time, next_send < 2^62) and any now < 2^62",
          ["iterator and packet-building calls are opaque; Probe::expired / update_next_send are executed from their MIR", "clock < 2^62"])
    f = ctx.funcs["check_probing"] if "check_probing" in ctx.funcs else ctx.funcs[ctx.fn("check_probing")]
    now = z3.BitVec("now", 64)
    ex = Explorer(ctx.funcs, ctx.consts, inline={"expired", "update_next_send"}, max_paths=600)
    paths = ex.explore(f.name, args=[None, None, BV(now, 64)], assumptions=[z3.ULT(now, TWO62)])
    seen = {"sent": 0, "finished": 0, "idle": 0}
    for i, p in enumerate(paths):
        if p.outcome.startswith("panic"):
            probes = [o for o, fl in p.objs.items() if (2,) in fl]
            pre = p.cond + [z3.ULT(fl[(2,)].e, TWO62) for o, fl in p.objs.items() if (2,) in fl and isinstance(fl[(2,)], BV)]
            q.unsat(pre, "check_probing panics: " + p.outcome[6:46])
            continue
        calls = [e for e in p.events if e[0] == "call"]
        names = [c[1].split("::")[-1] for c in calls]
        # the probe object: the one whose next_send (field 3) was compared with now
        probes = [(o, fl) for o, fl in p.objs.items() if (3,) in fl and isinstance(fl[(3,)], BV)]
        if not probes:
            continue   # map empty: nothing to do
        o, fl = probes[0]
        asked = "add_question" in names
        done = any(c[1].startswith("Vec::<String>::push") for c in calls)
        pushes = [c for c in calls if "BinaryHeap" in c[1] and c[1].endswith("::push")]
        start = fl.get((2,))
        if asked:
            seen["sent"] += 1
            if start is None or not isinstance(start, BV):
                q.fail.append(("a probe is sent without checking whether probing is already over", f"path {i}"))
                continue
            pre = p.cond + [z3.ULT(start.e, TWO62)]
            q.valid(pre, z3.ULT(now, start.e + 750), f"path {i}: no probe is sent once start + 750 ms has passed")
            ns = fl[(3,)]
            if done:
                q.fail.append(("a probe that is reported finished is still sent", f"path {i}"))
            if len(pushes) != 1:
                q.fail.append(("no wake-up requested for the next probe", f"path {i}: {len(pushes)} timer pushes"))
            else:
                arg = pushes[0][2][1]
                val = arg.items[0] if isinstance(arg, (Adt, Tup)) and arg.items else arg
                q.valid(pre, val.e == now + 250, f"path {i}: the next probe (and its wake-up) is due 250 ms after this one", getattr(val, "taint", True))
                q.valid(pre, ns.e == now + 250, f"path {i}: next_send' == now + 250")
            q.witness(pre, f"path {i}: probe sent")
        elif done:
            seen["finished"] += 1
            if start is not None and isinstance(start, BV):
                q.valid(p.cond + [z3.ULT(start.e, TWO62)], z3.UGE(now, start.e + 750), f"path {i}: a probe is only reported finished from start + 750 ms on")
            if pushes:
                q.fail.append(("a finished probe requests a further wake-up", f"path {i}"))
        else:
            seen["idle"] += 1
            if pushes:
                q.fail.append(("an idle probe requests a wake-up", f"path {i}"))
    if not (seen["sent"] and seen["finished"] and seen["idle"]):
        q.unknown.append(f"expected sent/finished/idle paths, found {seen}")
    return q.result()
