import re
# 1. service_info harness: build probes without an intermediate Vec/IntoIter (drop of IntoIter<Box<dyn>> is costly)
p='/verif/harness/service_info_harness.rs'
s=open(p).read()
s=s.replace('''fn probe_with(start: u64, recs: Vec<DnsRecordBox>) -> Probe {
    let mut p = Probe::new(start);
    // pre-sized (engine workaround, see overlay.py) and filled through the real insert_record
    p.records = Vec::with_capacity(4);
    for r in recs {
        p.insert_record(r);
    }
    p
}''','''fn probe_with1(start: u64, a: DnsRecordBox) -> Probe {
    let mut p = Probe::new(start);
    // pre-sized (engine workaround, see overlay.py) and filled through the real insert_record
    p.records = Vec::with_capacity(4);
    p.insert_record(a);
    p
}

fn probe_with2(start: u64, a: DnsRecordBox, b: DnsRecordBox) -> Probe {
    let mut p = probe_with1(start, a);
    p.insert_record(b);
    p
}''')
s=s.replace("probe_with(sa, vec![addr_rec(ia, ca)])","probe_with1(sa, addr_rec(ia, ca))")
s=s.replace("probe_with(sb, vec![addr_rec(ib, cb)])","probe_with1(sb, addr_rec(ib, cb))")
s=s.replace("probe_with(sa, vec![addr_rec(ia, CLASS_IN)])","probe_with1(sa, addr_rec(ia, CLASS_IN))")
s=s.replace("probe_with(s, vec![addr_rec(ip, CLASS_IN)])","probe_with1(s, addr_rec(ip, CLASS_IN))")
s=s.replace("probe_with(s, vec![addr_rec(ip, CLASS_IN), txt()])","probe_with2(s, addr_rec(ip, CLASS_IN), txt())")
s=s.replace("// @harness c08_tiebreak_count_short\n// @property X08","// @harness c08_tiebreak_count_short\n// @property C08")
s=s.replace("// @harness c08_tiebreak_count_long\n// @property X08","// @harness c08_tiebreak_count_long\n// @property C08")
open(p,'w').write(s)
# 2. new harness files
import shutil
shutil.copy('/verif/drafts/dns_cache_harness.rs','/verif/harness/dns_cache_harness.rs')
shutil.copy('/verif/drafts/service_daemon_harness.rs','/verif/harness/service_daemon_harness.rs')
p='/verif/harness/dns_parser_harness.rs'
s=open(p).read()
s+=open('/verif/drafts/dns_parser_more.rs').read()
open(p,'w').write(s)
print("applied")
