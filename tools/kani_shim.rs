// stand-in for the `kani` crate when support.rs is compiled natively for model validation
pub fn any<T: Default>() -> T {
    T::default()
}
pub fn assume(_c: bool) {}
