// Native differential validation of the models used by Engine A (run by bin/validate_models at setup):
//  * support::utf8_valid  vs  std::str::from_utf8      (all strings <= 3 bytes + 2e6 random <= 8 bytes)
//  * support::vmap::{HashMap,HashSet}  vs  std          (2e5 random operation sequences)
#[path = "../harness/support.rs"]
mod support;

struct Lcg(u64);
impl Lcg {
    fn next(&mut self) -> u64 {
        self.0 = self.0.wrapping_mul(6364136223846793005).wrapping_add(1442695040888963407);
        self.0 >> 24
    }
}

fn main() {
    let seed: u64 = std::env::args().nth(1).and_then(|s| s.parse().ok()).unwrap_or(1);
    // ---- utf8 ----
    let mut n = 0u64;
    for len in 0..=3usize {
        let total = 1u64 << (8 * len);
        for v in 0..total {
            let b = [(v & 0xFF) as u8, ((v >> 8) & 0xFF) as u8, ((v >> 16) & 0xFF) as u8];
            let s = &b[..len];
            assert_eq!(support::utf8_valid(s), std::str::from_utf8(s).is_ok(), "utf8 model differs on {:?}", s);
            n += 1;
        }
    }
    let mut r = Lcg(seed);
    // random strings biased towards multi-byte lead/continuation bytes
    let pool: [u8; 24] = [0x00, 0x41, 0x7F, 0x80, 0x8F, 0x90, 0x9F, 0xA0, 0xBF, 0xC0, 0xC1, 0xC2, 0xDF, 0xE0, 0xE1, 0xEC, 0xED, 0xEE, 0xEF, 0xF0, 0xF1, 0xF4, 0xF5, 0xFF];
    for _ in 0..2_000_000u32 {
        let len = (r.next() % 9) as usize;
        let mut b = [0u8; 8];
        for x in b.iter_mut().take(len) {
            let k = r.next();
            *x = if k & 1 == 0 { pool[(k >> 1) as usize % pool.len()] } else { (k >> 1) as u8 };
        }
        let s = &b[..len];
        assert_eq!(support::utf8_valid(s), std::str::from_utf8(s).is_ok(), "utf8 model differs on {:?}", s);
        n += 1;
    }
    println!("utf8_valid == std::str::from_utf8 on {} strings", n);

    // ---- vmap ----
    let mut cases = 0u64;
    for _ in 0..200_000u32 {
        let mut a: std::collections::HashMap<u8, u16> = std::collections::HashMap::new();
        let mut b: support::vmap::HashMap<u8, u16> = support::vmap::HashMap::new();
        let mut sa: std::collections::HashSet<u8> = std::collections::HashSet::new();
        let mut sb: support::vmap::HashSet<u8> = support::vmap::HashSet::new();
        let steps = 1 + r.next() % 12;
        for _ in 0..steps {
            let k = (r.next() % 6) as u8;
            let v = r.next() as u16;
            match r.next() % 9 {
                0 => assert_eq!(a.insert(k, v), b.insert(k, v)),
                1 => assert_eq!(a.remove(&k), b.remove(&k)),
                2 => assert_eq!(a.get(&k), b.get(&k)),
                3 => {
                    *a.entry(k).or_default() += 1;
                    *b.entry(k).or_default() += 1;
                }
                4 => {
                    a.entry(k).and_modify(|x| *x ^= v).or_insert(v);
                    b.entry(k).and_modify(|x| *x ^= v).or_insert(v);
                }
                5 => {
                    a.retain(|kk, vv| (*kk as u16 + *vv) % 3 != (v % 3));
                    b.retain(|kk, vv| (*kk as u16 + *vv) % 3 != (v % 3));
                }
                6 => assert_eq!(sa.insert(k), sb.insert(k)),
                7 => assert_eq!(sa.remove(&k), sb.remove(&k)),
                _ => assert_eq!(sa.contains(&k), sb.contains(&k)),
            }
            assert_eq!(a.len(), b.len());
            assert_eq!(sa.len(), sb.len());
            for (kk, vv) in a.iter() {
                assert_eq!(b.get(kk), Some(vv));
            }
            for (kk, vv) in b.iter() {
                assert_eq!(a.get(kk), Some(vv));
            }
            assert_eq!(a.contains_key(&k), b.contains_key(&k));
            for x in sa.iter() {
                assert!(sb.contains(x));
            }
            for x in sb.iter() {
                assert!(sa.contains(x));
            }
        }
        cases += 1;
    }
    println!("vmap == std collections on {} random operation sequences", cases);
}
