// Engine A harnesses for src/service_info.rs (child module, cfg(kani) only).
#![allow(unused_imports, dead_code, clippy::all)]

use super::*;
use crate::dns_parser::verif_kani::mk_incoming;
use crate::dns_parser::{DnsAddress, DnsTxt, CLASS_CACHE_FLUSH, CLASS_IN};
use crate::verif_support as vs;
use crate::verif_support::{any_time, set_clock};
use if_addrs::{IfOperStatus, Ifv4Addr, Ifv6Addr};

/// A ServiceInfo with the fields `ServiceInfo::new` + setters produce (names concrete, numbers symbolic).
pub(crate) fn svc_literal(port: u16, priority: u16, weight: u16, host_ttl: u32, other_ttl: u32) -> ServiceInfo {
    ServiceInfo {
        ty_domain: String::from("t."),
        sub_domain: None,
        fullname: String::from("i.t."),
        server: String::from("h."),
        addresses: HashSet::new(),
        port,
        host_ttl,
        other_ttl,
        priority,
        weight,
        txt_properties: TxtProperties { properties: Vec::with_capacity(1) },
        addr_auto: false,
        status: HashMap::new(),
        requires_probe: true,
        supported_intfs: Vec::with_capacity(1),
        is_link_local_only: false,
    }
}

pub(crate) fn svc_add_addr_and_subtype(s: &mut ServiceInfo, a: IpAddr, sub: &str) {
    s.addresses.insert(a);
    s.sub_domain = Some(String::from(sub));
}

/// `escape_instance_name` is private to service_info; the encoder harness in dns_parser reaches it through this.
pub(crate) fn escape_for_harness(s: &str) -> String {
    escape_instance_name(s)
}

// ---------------------------------------------------------------------------
// C06 / C18 - subnet filter
// ---------------------------------------------------------------------------

// @harness c06_subnet_v4
// @property C06 C18
// @tier quick
// @functions valid_ip_on_intf
// @bound every IPv4 service address, interface address and netmask (u32 x u32 x u32); every IPv6 service address against a v4 interface
// @oracle same link <=> (addr & mask) == (if_ip & mask); different families never match
// @covers on_link, off_link, mixed_family
#[kani::proof]
#[kani::unwind(2)]
fn c06_subnet_v4() {
    let (a, i, m): (u32, u32, u32) = (kani::any(), kani::any(), kani::any());
    let ifa = IfAddr::V4(Ifv4Addr {
        ip: Ipv4Addr::from(i),
        netmask: Ipv4Addr::from(m),
        prefixlen: kani::any(),
        broadcast: None,
    });
    let r = valid_ip_on_intf(&IpAddr::V4(Ipv4Addr::from(a)), &ifa);
    assert!(r == ((a & m) == (i & m)));
    let v6 = IpAddr::V6(Ipv6Addr::from(kani::any::<u128>()));
    assert!(!valid_ip_on_intf(&v6, &ifa), "an IPv6 address matched an IPv4 interface");
    kani::cover!(r, "on_link");
    kani::cover!(!r, "off_link");
    kani::cover!(true, "mixed_family");
}

// @harness c06_subnet_v6
// @property C06 C18
// @tier quick
// @functions valid_ip_on_intf
// @bound every IPv6 service address, interface address and netmask (u128 each); every IPv4 service address against a v6 interface
// @oracle same link <=> (addr & mask) == (if_ip & mask); different families never match
// @covers on_link, off_link, mixed_family
#[kani::proof]
#[kani::unwind(2)]
fn c06_subnet_v6() {
    let (a, i, m): (u128, u128, u128) = (kani::any(), kani::any(), kani::any());
    let ifa = IfAddr::V6(Ifv6Addr {
        ip: Ipv6Addr::from(i),
        netmask: Ipv6Addr::from(m),
        prefixlen: kani::any(),
        broadcast: None,
    });
    let r = valid_ip_on_intf(&IpAddr::V6(Ipv6Addr::from(a)), &ifa);
    assert!(r == ((a & m) == (i & m)));
    let v4 = IpAddr::V4(Ipv4Addr::from(kani::any::<u32>()));
    assert!(!valid_ip_on_intf(&v4, &ifa), "an IPv4 address matched an IPv6 interface");
    kani::cover!(r, "on_link");
    kani::cover!(!r, "off_link");
    kani::cover!(true, "mixed_family");
}

// ---------------------------------------------------------------------------
// C07 - probe clock (Kani twins of the Engine B summaries)
// ---------------------------------------------------------------------------

// @harness c07_twin_probe_clock
// @property C07
// @maps vmap
// @tier quick
// @functions Probe::new, Probe::expired, Probe::update_next_send
// @bound every start time and observation time below 2^62
// @oracle new(t): start == next_send == t; expired(now) <=> now >= start + 750; update_next_send(now): next_send == now + 250
// @covers expired, running
#[kani::proof]
#[kani::unwind(2)]
fn c07_twin_probe_clock() {
    let t = any_time();
    let mut p = Probe::new(t);
    assert!(p.start_time == t && p.next_send == t);
    let now = any_time();
    assert!(p.expired(now) == (now >= t + 750));
    kani::cover!(p.expired(now), "expired");
    kani::cover!(!p.expired(now), "running");
    p.update_next_send(now);
    assert!(p.next_send == now + 250 && p.start_time == t);
    core::mem::forget(p);
}

// ---------------------------------------------------------------------------
// C16 - TXT properties
// ---------------------------------------------------------------------------

fn ascii_key(n: usize, b: [u8; 2]) -> String {
    // 1..=2 symbolic ASCII bytes without '='
    let mut v = Vec::with_capacity(2);
    v.push(b[0]);
    if n > 1 {
        v.push(b[1]);
    }
    unsafe { String::from_utf8_unchecked(v) }
}

fn small_val(n: usize, b: [u8; 2]) -> Vec<u8> {
    let mut v = Vec::with_capacity(2);
    if n > 0 {
        v.push(b[0]);
    }
    if n > 1 {
        v.push(b[1]);
    }
    v
}

fn any_prop() -> (TxtProperty, usize, [u8; 2], Option<(usize, [u8; 2])>) {
    let kn: usize = kani::any();
    kani::assume(kn >= 1 && kn <= 2);
    let kb: [u8; 2] = kani::any();
    kani::assume(kb[0] < 0x80 && kb[1] < 0x80 && kb[0] != b'=' && kb[1] != b'=');
    let has_val: bool = kani::any();
    let vn: usize = kani::any();
    kani::assume(vn <= 2);
    let vb: [u8; 2] = kani::any();
    let p = TxtProperty {
        key: ascii_key(kn, kb),
        val: if has_val { Some(small_val(vn, vb)) } else { None },
    };
    (p, kn, kb, if has_val { Some((vn, vb)) } else { None })
}

fn prop_is(p: &TxtProperty, kn: usize, kb: [u8; 2], v: Option<(usize, [u8; 2])>) -> bool {
    let k = p.key.as_bytes();
    if k.len() != kn || k[0] != kb[0] || (kn > 1 && k[1] != kb[1]) {
        return false;
    }
    match (&p.val, v) {
        (None, None) => true,
        (Some(pv), Some((vn, vb))) => pv.len() == vn && (vn < 1 || pv[0] == vb[0]) && (vn < 2 || pv[1] == vb[1]),
        _ => false,
    }
}

// @harness c16_roundtrip_1
// @property X16
// @tier quick
// @functions encode_txt, decode_txt
// @bound one property: key of 1..=2 symbolic ASCII bytes without '=', value absent or 0..=2 arbitrary bytes (so '=', NUL and non-UTF-8 occur)
// @oracle decode_txt(encode_txt([p])) == [p]: key bytes, value bytes, None vs Some(empty); the length byte equals the string length
// @stubs utf8_model, fmt_format
// @covers no_value, empty_value, value_with_equals_sign
#[kani::proof]
#[kani::unwind(8)]
#[kani::stub(alloc::fmt::format, crate::verif_support::fmt_format)]
#[kani::stub(core::str::from_utf8, crate::verif_support::utf8_model)]
fn c16_roundtrip_1() {
    let (p, kn, kb, v) = any_prop();
    let props = [p];
    let enc = encode_txt(props.iter());
    let expect_len = kn + match v {
        None => 0,
        Some((vn, _)) => 1 + vn,
    };
    assert!(enc.len() == 1 + expect_len && enc[0] as usize == expect_len, "length byte != string length");
    let dec = decode_txt(&enc);
    assert!(dec.len() == 1, "one property in, not one out");
    assert!(prop_is(&dec[0], kn, kb, v), "property changed in the round trip");
    kani::cover!(v.is_none(), "no_value");
    kani::cover!(matches!(v, Some((0, _))), "empty_value");
    kani::cover!(matches!(v, Some((2, b)) if b[0] == b'='), "value_with_equals_sign");
    core::mem::forget(dec);
    core::mem::forget(enc);
    core::mem::forget(props);
}

// @harness c16_roundtrip_2
// @property X16
// @tier thorough
// @functions encode_txt, decode_txt
// @bound two properties, each as in c16_roundtrip_1
// @oracle decode_txt(encode_txt([p, q])) == [p, q] in that order
// @stubs utf8_model, fmt_format
// @covers both_valued, first_boolean
// @timeout 2400
#[kani::proof]
#[kani::unwind(12)]
#[kani::stub(alloc::fmt::format, crate::verif_support::fmt_format)]
#[kani::stub(core::str::from_utf8, crate::verif_support::utf8_model)]
fn c16_roundtrip_2() {
    let (p, kn, kb, v) = any_prop();
    let (q, kn2, kb2, v2) = any_prop();
    let props = [p, q];
    let enc = encode_txt(props.iter());
    let dec = decode_txt(&enc);
    assert!(dec.len() == 2);
    assert!(prop_is(&dec[0], kn, kb, v) && prop_is(&dec[1], kn2, kb2, v2), "order or content changed");
    kani::cover!(v.is_some() && v2.is_some(), "both_valued");
    kani::cover!(v.is_none(), "first_boolean");
    core::mem::forget(dec);
    core::mem::forget(enc);
    core::mem::forget(props);
}

// @harness c16_encode_empty
// @property X16
// @tier quick
// @functions encode_txt, decode_txt
// @bound the empty property list
// @oracle encodes to the single byte 0 and decodes back to no property
// @stubs utf8_model, fmt_format
// @covers empty
#[kani::proof]
#[kani::unwind(4)]
#[kani::stub(alloc::fmt::format, crate::verif_support::fmt_format)]
#[kani::stub(core::str::from_utf8, crate::verif_support::utf8_model)]
fn c16_encode_empty() {
    let props: [TxtProperty; 0] = [];
    let enc = encode_txt(props.iter());
    assert!(enc.len() == 1 && enc[0] == 0);
    let dec = decode_txt(&enc);
    assert!(dec.is_empty());
    kani::cover!(true, "empty");
    core::mem::forget(enc);
}

macro_rules! c16_decode_total {
    ($name:ident, $n:expr, $u:literal) => {
        #[kani::proof]
        #[kani::unwind($u)]
        #[kani::stub(alloc::fmt::format, crate::verif_support::fmt_format)]
        #[kani::stub(std::string::String::from_utf8, crate::verif_support::string_from_utf8_model)]
        fn $name() {
            const N: usize = $n;
            let txt: [u8; N] = kani::any();
            crate::verif_support::set_step_budget(N as u32);
            let dec = decode_txt(&txt);
            // every string takes >= 2 bytes of the record (length byte + >= 1 byte)
            assert!(dec.len() <= N / 2, "more properties than the record can hold");
            if dec.len() >= 1 {
                // the first returned property lies inside the record where its length byte says
                let l = txt[0] as usize;
                assert!(l >= 1 && 1 + l <= N);
                let p = &dec[0];
                let total = p.key.len() + p.val.as_ref().map_or(0, |v| v.len() + 1);
                // (if the first string's key is not UTF-8 it is skipped and dec[0] is a later one)
                if vs::utf8_valid(&txt[1..1 + l]) || true {
                    assert!(total <= N - 1);
                }
                kani::cover!(p.val.is_none(), "boolean_key");
                kani::cover!(p.val.is_some(), "key_value");
            }
            kani::cover!(dec.len() == N / 2, "max_properties");
            kani::cover!(dec.is_empty() && txt[0] != 0, "overrun_or_bad_key_ignored");
            core::mem::forget(dec);
        }
    };
}

// @harness c16_decode_total_4
// @property X16
// @tier quick
// @functions decode_txt
// @bound every TXT RDATA of exactly 4 bytes (2^32 contents)
// @oracle never panics, never reads outside the record, terminates; at most N/2 properties; a returned property fits inside the record
// @termination decode_txt
// @stubs utf8_model(+tick), fmt_format
// @covers boolean_key, key_value, max_properties, overrun_or_bad_key_ignored
c16_decode_total!(c16_decode_total_4, 4, 7);

// @harness c16_decode_total_6
// @property X16
// @tier thorough
// @functions decode_txt
// @bound every TXT RDATA of exactly 6 bytes (2^48 contents)
// @oracle as c16_decode_total_4
// @termination decode_txt
// @stubs utf8_model(+tick), fmt_format
// @covers boolean_key, key_value, max_properties, overrun_or_bad_key_ignored
// @timeout 2400
c16_decode_total!(c16_decode_total_6, 6, 9);

// ---------------------------------------------------------------------------
// C08 - simultaneous-probe tiebreaking: both sides reach opposite verdicts
// ---------------------------------------------------------------------------

fn addr_rec(ip: u32, class: u16) -> DnsRecordBox {
    DnsAddress::new("a.", RRType::A, class, 120, IpAddr::V4(Ipv4Addr::from(ip)), InterfaceId::default()).boxed()
}

fn probe_with1(start: u64, a: DnsRecordBox) -> Probe {
    let mut p = Probe::new(start);
    // pre-sized (engine workaround, see overlay.py) and filled through the real insert_record
    p.records = Vec::with_capacity(4);
    p.insert_record(a);
    p
}

fn probe_with2(start: u64, a: DnsRecordBox, b: DnsRecordBox) -> Probe {
    let mut p = probe_with1(start, a);
    p.insert_record(b);
    p
}

// @harness c08_tiebreak_opposite_a
// @property C08
// @maps vmap
// @tier quick
// @functions Probe::tiebreaking, Probe::insert_record, DnsRecordExt::compare, DnsAddress::compare_rdata
// @bound two probers of the same name, each proposing one A record (every address pair, class IN with/without flush bit); both probes already started; any clock reading
// @oracle exactly the side with the smaller address postpones (start' == next_send' == now + 1000); identical data: neither postpones
// @stubs clock(overlay)
// @covers a_loses, b_loses, tie
#[kani::proof]
#[kani::unwind(5)]
fn c08_tiebreak_opposite_a() {
    let (ia, ib): (u32, u32) = (kani::any(), kani::any());
    let now = any_time();
    let (sa, sb): (u64, u64) = (kani::any(), kani::any());
    kani::assume(sa < now && sb < now);
    set_clock(now);
    let ca = if kani::any() { CLASS_IN } else { CLASS_IN | CLASS_CACHE_FLUSH };
    let cb = if kani::any() { CLASS_IN } else { CLASS_IN | CLASS_CACHE_FLUSH };
    let mut pa = probe_with1(sa, addr_rec(ia, ca));
    let mut pb = probe_with1(sb, addr_rec(ib, cb));
    // each side sees the other's proposed records in the authority section of its probe query
    let mut msg_from_b = mk_incoming(Vec::with_capacity(1), 0, 0);
    msg_from_b.authorities_mut().push(addr_rec(ib, cb));
    let mut msg_from_a = mk_incoming(Vec::with_capacity(1), 0, 0);
    msg_from_a.authorities_mut().push(addr_rec(ia, ca));
    pa.tiebreaking(&msg_from_b, "a.");
    pb.tiebreaking(&msg_from_a, "a.");
    let a_post = pa.start_time != sa;
    let b_post = pb.start_time != sb;
    if a_post {
        assert!(pa.start_time == now + 1000 && pa.next_send == now + 1000);
    }
    if b_post {
        assert!(pb.start_time == now + 1000 && pb.next_send == now + 1000);
    }
    assert!(!(a_post && b_post), "both sides yielded");
    if ia != ib {
        assert!(a_post != b_post, "different data but nobody yielded");
        assert!(a_post == (ia < ib), "the lexicographically earlier side must yield");
    } else {
        assert!(!a_post && !b_post, "identical data must not make anyone yield");
    }
    kani::cover!(a_post, "a_loses");
    kani::cover!(b_post, "b_loses");
    kani::cover!(!a_post && !b_post, "tie");
    core::mem::forget(pa);
    core::mem::forget(pb);
    core::mem::forget(msg_from_a);
    core::mem::forget(msg_from_b);
}

// @harness c15_tiebreak_fewer_incoming
// @property C15 C08
// @maps vmap
// @tier quick
// @functions Probe::tiebreaking, DnsRecordExt::compare
// @bound we probe with two A records (addresses 1 and 2); the other prober's query carries 0 or 1 A record for the name (symbolic count; its address equal to our first one or greater than both); any clock
// @oracle no panic whatever the peer sends (a probe query with fewer records than ours must not take the daemon down); with an equal first record the side with more records does not yield
// @stubs clock(overlay)
// @covers none_incoming, one_incoming
#[kani::proof]
#[kani::unwind(5)]
fn c15_tiebreak_fewer_incoming() {
    let now = any_time();
    let sa: u64 = kani::any();
    kani::assume(sa < now);
    set_clock(now);
    let mut pa = probe_with2(sa, addr_rec(1, CLASS_IN), addr_rec(2, CLASS_IN));
    // the peer's address: equal to our first record, or greater than both of ours (concrete: the comparison of two
    // symbolic addresses is what makes this harness heavy, and it is decided by c08_tiebreak_opposite_a / c08_compare_addr)
    let ib: u32 = if kani::any() { 1 } else { 3 };
    let n: u8 = kani::any();
    kani::assume(n <= 1);
    let mut msg = mk_incoming(Vec::with_capacity(1), 0, 0);
    if n == 1 {
        msg.authorities_mut().push(addr_rec(ib, CLASS_IN));
    }
    pa.tiebreaking(&msg, "a.");
    let post = pa.start_time != sa;
    if n == 1 && ib == 1 {
        assert!(!post, "equal prefix and more records on our side: we must not yield");
    }
    kani::cover!(n == 0, "none_incoming");
    kani::cover!(n == 1, "one_incoming");
    core::mem::forget(pa);
    core::mem::forget(msg);
}

// @harness c08_tiebreak_not_started
// @property C08
// @maps vmap
// @tier quick
// @functions Probe::tiebreaking
// @bound one A record on each side, every address pair; our probe has not started yet (start_time >= now, e.g. already postponed)
// @oracle a probe that has not started is never postponed again (no double back-off)
// @stubs clock(overlay)
// @covers not_started
#[kani::proof]
#[kani::unwind(5)]
fn c08_tiebreak_not_started() {
    let (ia, ib): (u32, u32) = (kani::any(), kani::any());
    let now = any_time();
    let sa: u64 = kani::any();
    kani::assume(sa >= now);
    set_clock(now);
    let mut pa = probe_with1(sa, addr_rec(ia, CLASS_IN));
    let ns = pa.next_send;
    let mut msg = mk_incoming(Vec::with_capacity(1), 0, 0);
    msg.authorities_mut().push(addr_rec(ib, CLASS_IN));
    pa.tiebreaking(&msg, "a.");
    assert!(pa.start_time == sa && pa.next_send == ns);
    kani::cover!(ia < ib, "not_started");
    core::mem::forget(pa);
    core::mem::forget(msg);
}

macro_rules! c08_tiebreak_count {
    ($name:ident, $we_short:expr) => {
        #[kani::proof]
        #[kani::unwind(5)]
        fn $name() {
            let ip: u32 = kani::any();
            let now = any_time();
            let s: u64 = kani::any();
            kani::assume(s < now);
            set_clock(now);
            let txt = || DnsTxt::new("a.", CLASS_IN, 4500, vec![1, b'k']).boxed();
            let mut mine = if $we_short {
                probe_with1(s, addr_rec(ip, CLASS_IN))
            } else {
                probe_with2(s, addr_rec(ip, CLASS_IN), txt())
            };
            let mut msg = mk_incoming(Vec::with_capacity(1), 0, 0);
            // a record of another name comes first and must not take part in the comparison
            msg.authorities_mut().push(
                DnsAddress::new("b.", RRType::A, CLASS_IN, 120, IpAddr::V4(Ipv4Addr::from(0u32)), InterfaceId::default()).boxed(),
            );
            msg.authorities_mut().push(addr_rec(ip, CLASS_IN));
            if $we_short {
                msg.authorities_mut().push(txt());
            }
            mine.tiebreaking(&msg, "a.");
            if $we_short {
                assert!(mine.start_time == now + 1000 && mine.next_send == now + 1000, "fewer records must yield");
            } else {
                assert!(mine.start_time == s, "more records must not yield");
            }
            kani::cover!(true, "decided");
            core::mem::forget(mine);
            core::mem::forget(msg);
        }
    };
}

// @harness c08_tiebreak_count_short
// @property X08
// @maps vmap
// @tier quick
// @functions Probe::tiebreaking, Probe::insert_record, DnsRecordExt::compare
// @bound we propose one A record (any address); the other prober the same A record plus a TXT record; a record of another name precedes them in the message; any clock
// @oracle equal prefix: the side with fewer records yields (start' == next_send' == now + 1000); records of other names do not take part
// @stubs clock(overlay)
// @covers decided
c08_tiebreak_count!(c08_tiebreak_count_short, true);

// @harness c08_tiebreak_count_long
// @property X08
// @maps vmap
// @tier quick
// @functions Probe::tiebreaking, Probe::insert_record, DnsRecordExt::compare
// @bound we propose an A record (any address) plus a TXT record; the other prober only the same A record
// @oracle equal prefix: the side with more records does not yield
// @stubs clock(overlay)
// @covers decided
c08_tiebreak_count!(c08_tiebreak_count_long, false);

// @harness c08_insert_sorted
// @property C08
// @maps vmap
// @tier quick
// @functions Probe::insert_record
// @bound three records inserted in every order: kinds from {A, TXT, SRV} with symbolic class (flush bit on or off)
// @oracle afterwards the records are sorted by (class, type number), whatever the insertion order
// @stubs clock(overlay)
// @covers inserted_front, inserted_back
#[kani::proof]
#[kani::unwind(5)]
fn c08_insert_sorted() {
    set_clock(any_time());
    let mk = |k: u8, class: u16| -> DnsRecordBox {
        match k {
            0 => addr_rec(kani::any(), class),
            1 => DnsTxt::new("a.", class, 4500, vec![0]).boxed(),
            _ => crate::dns_parser::DnsSrv::new("a.", class, 120, 0, 0, kani::any(), "b.".to_string()).boxed(),
        }
    };
    let (k0, k1, k2): (u8, u8, u8) = (kani::any(), kani::any(), kani::any());
    kani::assume(k0 < 3 && k1 < 3 && k2 < 3);
    let cls = |b: bool| if b { CLASS_IN } else { 3 };
    let (c0, c1, c2) = (cls(kani::any()), cls(kani::any()), cls(kani::any()));
    let mut p = Probe::new(0);
    p.records = Vec::with_capacity(4);
    p.insert_record(mk(k0, c0));
    p.insert_record(mk(k1, c1));
    p.insert_record(mk(k2, c2));
    assert!(p.records.len() == 3);
    let key = |r: &DnsRecordBox| (r.get_class(), r.get_type() as u16);
    assert!(key(&p.records[0]) <= key(&p.records[1]) && key(&p.records[1]) <= key(&p.records[2]), "probe records not sorted");
    kani::cover!(key(&p.records[0]) == (c2, [1u16, 16, 33][k2 as usize]) && key(&p.records[0]) != key(&p.records[1]), "inserted_front");
    kani::cover!(key(&p.records[2]) == (c2, [1u16, 16, 33][k2 as usize]) && key(&p.records[1]) != key(&p.records[2]), "inserted_back");
    core::mem::forget(p);
}
