// Support code compiled only under cfg(kani) into the scratch overlay
// (see DESIGN.md 2.1/2.4).  Stubs, the association-list model of the hash
// containers, and an independent RFC 1035 reference reader.
#![allow(dead_code, unused_imports, clippy::all)]

// ---------------------------------------------------------------------------
// Stubs (each one is part of every claim that uses it; listed in evidence)
// ---------------------------------------------------------------------------

/// `alloc::fmt::format`: error / log text is irrelevant to every property.
pub fn fmt_format(_args: core::fmt::Arguments<'_>) -> String {
    String::new()
}

/// The clock.  The harness owns time: it writes `CLOCK_NOW` before the call.
pub static mut CLOCK_NOW: u64 = 0;
pub static mut CLOCK_READS: u32 = 0;

pub fn clock() -> u64 {
    unsafe {
        CLOCK_READS += 1;
        CLOCK_NOW
    }
}

pub fn set_clock(t: u64) {
    unsafe {
        CLOCK_NOW = t;
    }
}

/// A symbolic instant below 2^62 ms (146 My after the epoch).
pub fn any_time() -> u64 {
    let t: u64 = kani::any();
    kani::assume(t < (1u64 << 62));
    t
}

/// `fastrand::u64(range)` for the only call shape in the crate (`0..250`).
pub static mut JITTER: u64 = 0;
pub static mut JITTER_RANGE: (u64, u64) = (0, 0);
pub fn jitter(r: core::ops::Range<u64>) -> u64 {
    // The harness chooses JITTER (symbolic, inside the documented range) and can
    // inspect the range the code asked for.
    unsafe {
        JITTER_RANGE = (r.start, r.end);
        JITTER
    }
}

// Byte-wise RFC 3629 validator with the same accept set as core's
// `run_utf8_validation` (which uses SWAR/align_offset and stalls the SAT back
// end).  Validated against std at `setup` (bin/validate_models).
pub fn utf8_valid(v: &[u8]) -> bool {
    // One byte per iteration, no inner loop (cheap to unroll): `need` continuation bytes are still
    // expected, the next one must lie in lo..=hi (the first continuation byte of E0/ED/F0/F4
    // sequences has a narrower range, RFC 3629 section 4).
    let mut need: u8 = 0;
    let mut lo: u8 = 0x80;
    let mut hi: u8 = 0xBF;
    let mut i = 0usize;
    while i < v.len() {
        let b = v[i];
        if need == 0 {
            if b >= 0x80 {
                if b >= 0xC2 && b <= 0xDF {
                    need = 1;
                } else if b >= 0xE0 && b <= 0xEF {
                    need = 2;
                    if b == 0xE0 {
                        lo = 0xA0;
                    } else if b == 0xED {
                        hi = 0x9F;
                    }
                } else if b >= 0xF0 && b <= 0xF4 {
                    need = 3;
                    if b == 0xF0 {
                        lo = 0x90;
                    } else if b == 0xF4 {
                        hi = 0x8F;
                    }
                } else {
                    return false;
                }
            }
        } else {
            if b < lo || b > hi {
                return false;
            }
            need -= 1;
            lo = 0x80;
            hi = 0xBF;
        }
        i += 1;
    }
    need == 0
}

#[repr(C)]
struct Utf8ErrorTwin {
    valid_up_to: usize,
    error_len: Option<u8>,
}

fn some_utf8_error() -> core::str::Utf8Error {
    // The value is never inspected (formatting is stubbed); only its existence matters.
    let t = Utf8ErrorTwin {
        valid_up_to: 0,
        error_len: Some(1),
    };
    unsafe { core::mem::transmute::<Utf8ErrorTwin, core::str::Utf8Error>(t) }
}

/// Ghost step counter: turns "this loop runs too long" into an ordinary assertion, so that Kani
/// can emit a concrete playback test for it (it cannot for a bare unwinding assertion).
pub static mut STEPS: u32 = 0;
pub static mut STEP_BUDGET: u32 = u32::MAX;
pub fn tick() {
    unsafe {
        STEPS += 1;
        assert!(STEPS <= STEP_BUDGET, "iteration budget exceeded (termination)");
    }
}
pub fn set_step_budget(n: u32) {
    unsafe {
        STEPS = 0;
        STEP_BUDGET = n;
    }
}

/// Stub for `core::str::from_utf8` (and through it `String::from_utf8`).
pub fn utf8_model(v: &[u8]) -> Result<&str, core::str::Utf8Error> {
    tick();
    if utf8_valid(v) {
        Ok(unsafe { core::str::from_utf8_unchecked(v) })
    } else {
        Err(some_utf8_error())
    }
}

struct FromUtf8ErrorTwin {
    bytes: Vec<u8>,
    error: core::str::Utf8Error,
}

/// Stub for `String::from_utf8` itself (skips std's wrapper; same accept set, the error keeps the bytes).
pub fn string_from_utf8_model(v: Vec<u8>) -> Result<String, std::string::FromUtf8Error> {
    tick();
    if utf8_valid(&v) {
        Ok(unsafe { String::from_utf8_unchecked(v) })
    } else {
        let t = FromUtf8ErrorTwin {
            bytes: v,
            error: some_utf8_error(),
        };
        Err(unsafe { core::mem::transmute::<FromUtf8ErrorTwin, std::string::FromUtf8Error>(t) })
    }
}

/// ASCII-only lowering for `str::to_lowercase` (harnesses assume ASCII names).
pub fn ascii_lower(s: &str) -> String {
    let mut out = String::with_capacity(s.len());
    for b in s.bytes() {
        out.push(b.to_ascii_lowercase() as char);
    }
    out
}

// ---------------------------------------------------------------------------
// Independent RFC 1035 reference reader (oracle for C02; ~40 lines, no sharing
// with the crate's decoder).  Labels are returned as raw bytes.
// ---------------------------------------------------------------------------

pub const REF_MAX_LABELS: usize = 6;
pub const REF_MAX_LABEL_LEN: usize = 8;

#[derive(Clone, Copy)]
pub struct RefName {
    pub n_labels: usize,
    pub len: [usize; REF_MAX_LABELS],
    pub bytes: [[u8; REF_MAX_LABEL_LEN]; REF_MAX_LABELS],
    /// offset just after the name in the *original* position (not after a jump)
    pub next: usize,
}

/// Reads a possibly compressed name at `start`. `None` = malformed for the
/// reference reader (out of range, >hops, label too long for the bounds).
pub fn ref_read_name(pkt: &[u8], start: usize) -> Option<RefName> {
    let mut out = RefName {
        n_labels: 0,
        len: [0; REF_MAX_LABELS],
        bytes: [[0; REF_MAX_LABEL_LEN]; REF_MAX_LABELS],
        next: 0,
    };
    let mut off = start;
    let mut jumped = false;
    let mut hops = 0;
    let mut steps = 0;
    while steps < REF_MAX_LABELS + 4 {
        steps += 1;
        if off >= pkt.len() {
            return None;
        }
        let l = pkt[off] as usize;
        if l == 0 {
            if !jumped {
                out.next = off + 1;
            }
            return Some(out);
        }
        if l & 0xC0 == 0xC0 {
            if off + 1 >= pkt.len() {
                return None;
            }
            let p = ((l & 0x3F) << 8) | pkt[off + 1] as usize;
            if !jumped {
                out.next = off + 2;
                jumped = true;
            }
            hops += 1;
            if hops > 3 || p >= off {
                return None;
            }
            off = p;
            continue;
        }
        if l & 0xC0 != 0 || l > REF_MAX_LABEL_LEN || out.n_labels >= REF_MAX_LABELS {
            return None;
        }
        if off + 1 + l > pkt.len() {
            return None;
        }
        let mut i = 0;
        while i < l {
            out.bytes[out.n_labels][i] = pkt[off + 1 + i];
            i += 1;
        }
        out.len[out.n_labels] = l;
        out.n_labels += 1;
        off += 1 + l;
    }
    None
}

pub fn ref_label_eq(n: &RefName, idx: usize, expect: &[u8]) -> bool {
    if idx >= n.n_labels || n.len[idx] != expect.len() {
        return false;
    }
    let mut i = 0;
    while i < expect.len() {
        if n.bytes[idx][i] != expect[i] {
            return false;
        }
        i += 1;
    }
    true
}

pub fn be16(p: &[u8], o: usize) -> u16 {
    ((p[o] as u16) << 8) | p[o + 1] as u16
}
pub fn be32(p: &[u8], o: usize) -> u32 {
    ((p[o] as u32) << 24) | ((p[o + 1] as u32) << 16) | ((p[o + 2] as u32) << 8) | p[o + 3] as u32
}

// ---------------------------------------------------------------------------
// vmap: association-list model of std::collections::{HashMap, HashSet}
// (linear search with `==`; iteration order = insertion order).  Swapped in by
// the overlay with --model-maps because hashbrown does not get through CBMC.
// ---------------------------------------------------------------------------
pub mod vmap {
    use core::borrow::Borrow;
    use core::fmt;

    #[derive(Clone)]
    pub struct HashMap<K, V> {
        pub items: Vec<(K, V)>,
    }

    impl<K, V> Default for HashMap<K, V> {
        fn default() -> Self {
            Self { items: Vec::new() }
        }
    }

    impl<K: fmt::Debug, V: fmt::Debug> fmt::Debug for HashMap<K, V> {
        fn fmt(&self, f: &mut fmt::Formatter<'_>) -> fmt::Result {
            f.debug_map().entries(self.items.iter().map(|(k, v)| (k, v))).finish()
        }
    }

    impl<K: Eq, V> HashMap<K, V> {
        pub fn new() -> Self {
            Self { items: Vec::new() }
        }
        pub fn with_capacity(_n: usize) -> Self {
            Self::new()
        }
        pub fn len(&self) -> usize {
            self.items.len()
        }
        pub fn is_empty(&self) -> bool {
            self.items.is_empty()
        }
        pub fn clear(&mut self) {
            self.items.clear()
        }
        fn pos<Q: ?Sized + Eq>(&self, k: &Q) -> Option<usize>
        where
            K: Borrow<Q>,
        {
            let mut i = 0;
            while i < self.items.len() {
                if self.items[i].0.borrow() == k {
                    return Some(i);
                }
                i += 1;
            }
            None
        }
        pub fn get<Q: ?Sized + Eq>(&self, k: &Q) -> Option<&V>
        where
            K: Borrow<Q>,
        {
            match self.pos(k) {
                Some(i) => Some(&self.items[i].1),
                None => None,
            }
        }
        pub fn get_mut<Q: ?Sized + Eq>(&mut self, k: &Q) -> Option<&mut V>
        where
            K: Borrow<Q>,
        {
            match self.pos(k) {
                Some(i) => Some(&mut self.items[i].1),
                None => None,
            }
        }
        pub fn get_key_value<Q: ?Sized + Eq>(&self, k: &Q) -> Option<(&K, &V)>
        where
            K: Borrow<Q>,
        {
            match self.pos(k) {
                Some(i) => Some((&self.items[i].0, &self.items[i].1)),
                None => None,
            }
        }
        pub fn contains_key<Q: ?Sized + Eq>(&self, k: &Q) -> bool
        where
            K: Borrow<Q>,
        {
            self.pos(k).is_some()
        }
        pub fn insert(&mut self, k: K, v: V) -> Option<V> {
            match self.pos(&k) {
                Some(i) => Some(core::mem::replace(&mut self.items[i].1, v)),
                None => {
                    self.items.push((k, v));
                    None
                }
            }
        }
        pub fn remove<Q: ?Sized + Eq>(&mut self, k: &Q) -> Option<V>
        where
            K: Borrow<Q>,
        {
            match self.pos(k) {
                Some(i) => Some(self.items.remove(i).1),
                None => None,
            }
        }
        pub fn remove_entry<Q: ?Sized + Eq>(&mut self, k: &Q) -> Option<(K, V)>
        where
            K: Borrow<Q>,
        {
            match self.pos(k) {
                Some(i) => Some(self.items.remove(i)),
                None => None,
            }
        }
        pub fn entry(&mut self, k: K) -> Entry<'_, K, V> {
            match self.pos(&k) {
                Some(i) => Entry::Occupied(OccupiedEntry { map: self, idx: i }),
                None => Entry::Vacant(VacantEntry { map: self, key: k }),
            }
        }
        pub fn iter(&self) -> Iter<'_, K, V> {
            Iter { it: self.items.iter() }
        }
        pub fn iter_mut(&mut self) -> IterMut<'_, K, V> {
            IterMut { it: self.items.iter_mut() }
        }
        pub fn keys(&self) -> impl Iterator<Item = &K> {
            self.items.iter().map(|(k, _)| k)
        }
        pub fn values(&self) -> impl Iterator<Item = &V> {
            self.items.iter().map(|(_, v)| v)
        }
        pub fn values_mut(&mut self) -> impl Iterator<Item = &mut V> {
            self.items.iter_mut().map(|(_, v)| v)
        }
        pub fn into_keys(self) -> impl Iterator<Item = K> {
            self.items.into_iter().map(|(k, _)| k)
        }
        pub fn into_values(self) -> impl Iterator<Item = V> {
            self.items.into_iter().map(|(_, v)| v)
        }
        pub fn retain<F: FnMut(&K, &mut V) -> bool>(&mut self, mut f: F) {
            self.items.retain_mut(|(k, v)| f(k, v))
        }
        pub fn drain(&mut self) -> std::vec::Drain<'_, (K, V)> {
            self.items.drain(..)
        }
    }

    pub struct Iter<'a, K, V> {
        it: core::slice::Iter<'a, (K, V)>,
    }
    impl<'a, K, V> Iterator for Iter<'a, K, V> {
        type Item = (&'a K, &'a V);
        fn next(&mut self) -> Option<Self::Item> {
            self.it.next().map(|(k, v)| (k, v))
        }
    }
    pub struct IterMut<'a, K, V> {
        it: core::slice::IterMut<'a, (K, V)>,
    }
    impl<'a, K, V> Iterator for IterMut<'a, K, V> {
        type Item = (&'a K, &'a mut V);
        fn next(&mut self) -> Option<Self::Item> {
            self.it.next().map(|(k, v)| (&*k, v))
        }
    }
    pub struct IntoIter<K, V> {
        it: std::vec::IntoIter<(K, V)>,
    }
    impl<K, V> Iterator for IntoIter<K, V> {
        type Item = (K, V);
        fn next(&mut self) -> Option<Self::Item> {
            self.it.next()
        }
    }
    impl<K, V> IntoIterator for HashMap<K, V> {
        type Item = (K, V);
        type IntoIter = IntoIter<K, V>;
        fn into_iter(self) -> Self::IntoIter {
            IntoIter { it: self.items.into_iter() }
        }
    }
    impl<'a, K: Eq, V> IntoIterator for &'a HashMap<K, V> {
        type Item = (&'a K, &'a V);
        type IntoIter = Iter<'a, K, V>;
        fn into_iter(self) -> Self::IntoIter {
            self.iter()
        }
    }
    impl<'a, K: Eq, V> IntoIterator for &'a mut HashMap<K, V> {
        type Item = (&'a K, &'a mut V);
        type IntoIter = IterMut<'a, K, V>;
        fn into_iter(self) -> Self::IntoIter {
            self.iter_mut()
        }
    }
    impl<K: Eq, V> core::iter::FromIterator<(K, V)> for HashMap<K, V> {
        fn from_iter<I: IntoIterator<Item = (K, V)>>(iter: I) -> Self {
            let mut m = HashMap::new();
            for (k, v) in iter {
                m.insert(k, v);
            }
            m
        }
    }
    impl<K: Eq, V> Extend<(K, V)> for HashMap<K, V> {
        fn extend<I: IntoIterator<Item = (K, V)>>(&mut self, iter: I) {
            for (k, v) in iter {
                self.insert(k, v);
            }
        }
    }
    impl<K: Eq, V, const N: usize> From<[(K, V); N]> for HashMap<K, V> {
        fn from(a: [(K, V); N]) -> Self {
            IntoIterator::into_iter(a).collect()
        }
    }
    impl<K: Eq, V: PartialEq> PartialEq for HashMap<K, V> {
        fn eq(&self, o: &Self) -> bool {
            if self.len() != o.len() {
                return false;
            }
            self.items.iter().all(|(k, v)| o.get(k).map_or(false, |w| v == w))
        }
    }
    impl<K: Eq, V: Eq> Eq for HashMap<K, V> {}
    impl<K: Eq + Borrow<Q>, Q: ?Sized + Eq, V> core::ops::Index<&Q> for HashMap<K, V> {
        type Output = V;
        fn index(&self, k: &Q) -> &V {
            self.get(k).expect("no entry found for key")
        }
    }

    pub enum Entry<'a, K, V> {
        Occupied(OccupiedEntry<'a, K, V>),
        Vacant(VacantEntry<'a, K, V>),
    }
    pub struct OccupiedEntry<'a, K, V> {
        map: &'a mut HashMap<K, V>,
        idx: usize,
    }
    pub struct VacantEntry<'a, K, V> {
        map: &'a mut HashMap<K, V>,
        key: K,
    }
    impl<'a, K, V> OccupiedEntry<'a, K, V> {
        pub fn get(&self) -> &V {
            &self.map.items[self.idx].1
        }
        pub fn get_mut(&mut self) -> &mut V {
            &mut self.map.items[self.idx].1
        }
        pub fn into_mut(self) -> &'a mut V {
            &mut self.map.items[self.idx].1
        }
        pub fn key(&self) -> &K {
            &self.map.items[self.idx].0
        }
        pub fn insert(&mut self, v: V) -> V {
            core::mem::replace(&mut self.map.items[self.idx].1, v)
        }
        pub fn remove(self) -> V {
            self.map.items.remove(self.idx).1
        }
        pub fn remove_entry(self) -> (K, V) {
            self.map.items.remove(self.idx)
        }
    }
    impl<'a, K, V> VacantEntry<'a, K, V> {
        pub fn insert(self, v: V) -> &'a mut V {
            self.map.items.push((self.key, v));
            let n = self.map.items.len();
            &mut self.map.items[n - 1].1
        }
        pub fn key(&self) -> &K {
            &self.key
        }
        pub fn into_key(self) -> K {
            self.key
        }
    }
    impl<'a, K, V> Entry<'a, K, V> {
        pub fn or_insert(self, default: V) -> &'a mut V {
            match self {
                Entry::Occupied(o) => o.into_mut(),
                Entry::Vacant(v) => v.insert(default),
            }
        }
        pub fn or_insert_with<F: FnOnce() -> V>(self, f: F) -> &'a mut V {
            match self {
                Entry::Occupied(o) => o.into_mut(),
                Entry::Vacant(v) => v.insert(f()),
            }
        }
        pub fn or_default(self) -> &'a mut V
        where
            V: Default,
        {
            match self {
                Entry::Occupied(o) => o.into_mut(),
                Entry::Vacant(v) => v.insert(V::default()),
            }
        }
        pub fn and_modify<F: FnOnce(&mut V)>(mut self, f: F) -> Self {
            if let Entry::Occupied(o) = &mut self {
                f(o.get_mut());
            }
            self
        }
        pub fn key(&self) -> &K {
            match self {
                Entry::Occupied(o) => o.key(),
                Entry::Vacant(v) => v.key(),
            }
        }
    }

    // ---------------- HashSet ----------------
    #[derive(Clone)]
    pub struct HashSet<T> {
        pub items: Vec<T>,
    }
    impl<T> Default for HashSet<T> {
        fn default() -> Self {
            Self { items: Vec::new() }
        }
    }
    impl<T: fmt::Debug> fmt::Debug for HashSet<T> {
        fn fmt(&self, f: &mut fmt::Formatter<'_>) -> fmt::Result {
            f.debug_set().entries(self.items.iter()).finish()
        }
    }
    impl<T: Eq> HashSet<T> {
        pub fn new() -> Self {
            Self { items: Vec::new() }
        }
        pub fn with_capacity(_n: usize) -> Self {
            Self::new()
        }
        pub fn len(&self) -> usize {
            self.items.len()
        }
        pub fn is_empty(&self) -> bool {
            self.items.is_empty()
        }
        pub fn clear(&mut self) {
            self.items.clear()
        }
        fn pos<Q: ?Sized + Eq>(&self, k: &Q) -> Option<usize>
        where
            T: Borrow<Q>,
        {
            let mut i = 0;
            while i < self.items.len() {
                if self.items[i].borrow() == k {
                    return Some(i);
                }
                i += 1;
            }
            None
        }
        pub fn contains<Q: ?Sized + Eq>(&self, k: &Q) -> bool
        where
            T: Borrow<Q>,
        {
            self.pos(k).is_some()
        }
        pub fn get<Q: ?Sized + Eq>(&self, k: &Q) -> Option<&T>
        where
            T: Borrow<Q>,
        {
            match self.pos(k) {
                Some(i) => Some(&self.items[i]),
                None => None,
            }
        }
        pub fn insert(&mut self, v: T) -> bool {
            if self.pos(&v).is_some() {
                false
            } else {
                self.items.push(v);
                true
            }
        }
        pub fn replace(&mut self, v: T) -> Option<T> {
            match self.pos(&v) {
                Some(i) => Some(core::mem::replace(&mut self.items[i], v)),
                None => {
                    self.items.push(v);
                    None
                }
            }
        }
        pub fn remove<Q: ?Sized + Eq>(&mut self, k: &Q) -> bool
        where
            T: Borrow<Q>,
        {
            match self.pos(k) {
                Some(i) => {
                    self.items.remove(i);
                    true
                }
                None => false,
            }
        }
        pub fn take<Q: ?Sized + Eq>(&mut self, k: &Q) -> Option<T>
        where
            T: Borrow<Q>,
        {
            match self.pos(k) {
                Some(i) => Some(self.items.remove(i)),
                None => None,
            }
        }
        pub fn iter(&self) -> core::slice::Iter<'_, T> {
            self.items.iter()
        }
        pub fn retain<F: FnMut(&T) -> bool>(&mut self, f: F) {
            self.items.retain(f)
        }
        pub fn drain(&mut self) -> std::vec::Drain<'_, T> {
            self.items.drain(..)
        }
        pub fn difference<'a>(&'a self, other: &'a HashSet<T>) -> impl Iterator<Item = &'a T> {
            self.items.iter().filter(move |x| !other.contains(*x))
        }
        pub fn intersection<'a>(&'a self, other: &'a HashSet<T>) -> impl Iterator<Item = &'a T> {
            self.items.iter().filter(move |x| other.contains(*x))
        }
        pub fn union<'a>(&'a self, other: &'a HashSet<T>) -> impl Iterator<Item = &'a T> {
            self.items.iter().chain(other.items.iter().filter(move |x| !self.contains(*x)))
        }
        pub fn is_subset(&self, other: &HashSet<T>) -> bool {
            self.items.iter().all(|x| other.contains(x))
        }
        pub fn is_disjoint(&self, other: &HashSet<T>) -> bool {
            self.items.iter().all(|x| !other.contains(x))
        }
    }
    impl<T> IntoIterator for HashSet<T> {
        type Item = T;
        type IntoIter = std::vec::IntoIter<T>;
        fn into_iter(self) -> Self::IntoIter {
            self.items.into_iter()
        }
    }
    impl<'a, T> IntoIterator for &'a HashSet<T> {
        type Item = &'a T;
        type IntoIter = core::slice::Iter<'a, T>;
        fn into_iter(self) -> Self::IntoIter {
            self.items.iter()
        }
    }
    impl<T: Eq> core::iter::FromIterator<T> for HashSet<T> {
        fn from_iter<I: IntoIterator<Item = T>>(iter: I) -> Self {
            let mut s = HashSet::new();
            for v in iter {
                s.insert(v);
            }
            s
        }
    }
    impl<T: Eq> Extend<T> for HashSet<T> {
        fn extend<I: IntoIterator<Item = T>>(&mut self, iter: I) {
            for v in iter {
                self.insert(v);
            }
        }
    }
    impl<'a, T: Eq + Copy + 'a> Extend<&'a T> for HashSet<T> {
        fn extend<I: IntoIterator<Item = &'a T>>(&mut self, iter: I) {
            for v in iter {
                self.insert(*v);
            }
        }
    }
    impl<T: Eq, const N: usize> From<[T; N]> for HashSet<T> {
        fn from(a: [T; N]) -> Self {
            IntoIterator::into_iter(a).collect()
        }
    }
    impl<T: Eq> PartialEq for HashSet<T> {
        fn eq(&self, o: &Self) -> bool {
            self.len() == o.len() && self.items.iter().all(|x| o.contains(x))
        }
    }
    impl<T: Eq> Eq for HashSet<T> {}
}
