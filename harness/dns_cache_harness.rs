// Engine A harnesses for src/dns_cache.rs (child module, cfg(kani) only; needs the container model).
#![allow(unused_imports, dead_code, clippy::all)]

use super::*;
use crate::dns_parser::{DnsAddress, DnsPointer, DnsRecordExt, DnsSrv, DnsTxt, RRType, CLASS_CACHE_FLUSH, CLASS_IN};
use crate::service_info::MyIntf;
use crate::verif_support as vs;
use crate::verif_support::{any_time, set_clock};
use std::net::{IpAddr, Ipv4Addr};

fn intf(index: u32) -> MyIntf {
    MyIntf {
        name: String::from("e"),
        index,
        addrs: HashSet::new(),
    }
}

fn intf_id(index: u32) -> InterfaceId {
    InterfaceId {
        name: String::from("e"),
        index,
    }
}

fn addr_of(r: &DnsRecordIntf) -> (u32, u32, u64, u64, u32, bool, RRType) {
    let a = r.record.any().downcast_ref::<DnsAddress>().unwrap();
    let ip = match a.address().to_ip_addr() {
        IpAddr::V4(v) => u32::from(v),
        _ => 0,
    };
    let rec = r.record.get_record();
    (ip, a.interface_id.index, rec.get_created(), rec.get_expire_time(), rec.get_ttl(), r.record.get_cache_flush(), r.record.get_type())
}

// @harness c11_cache_flush_addr
// @property X11
// @maps vmap
// @tier quick
// @functions DnsCache::add_or_update, DnsRecordExt::reset_ttl, DnsRecord::reset_ttl, DnsAddress::matches
// @bound cache holding one A record of host h (any address, TTL, creation time, flush bit, interface index 1|2); one incoming A record of h with symbolic address, TTL (>= 1), flush bit, interface index 1|2 at any later instant
// @oracle old record ends with expires == now + 1000 iff incoming has the flush bit && now > created + 1000 && expires > now + 1000 && same interface index (same class/type here); then a timer for now + 1000 is requested; otherwise the old record is untouched; an identical record (address, interface, flush bit) is refreshed in place (created = now, full new lifetime) instead of duplicated; the incoming record itself is stored with its own full lifetime
// @outside other record types (c11_cache_flush_srv), more than one cached record, class other than IN
// @stubs clock(overlay), ascii_lower (names in the harness are ASCII)
// @covers flushed, too_young, other_interface, no_flush_bit, refreshed_in_place, about_to_expire
#[kani::proof]
#[kani::unwind(5)]
#[kani::stub(str::to_lowercase, crate::verif_support::ascii_lower)]
fn c11_cache_flush_addr() {
    let mut cache = DnsCache::new();
    let mut timers: Vec<u64> = Vec::with_capacity(4);
    let (ip_old, ip_in): (u32, u32) = (kani::any(), kani::any());
    let (ttl_old, ttl_in): (u32, u32) = (kani::any(), kani::any());
    kani::assume(ttl_in >= 1);
    let (fl_old, fl_in): (bool, bool) = (kani::any(), kani::any());
    let idx_old: u32 = if kani::any() { 1 } else { 2 };
    let idx_in: u32 = if kani::any() { 1 } else { 2 };
    let t0 = any_time();
    let now = any_time();
    kani::assume(now >= t0);
    let cls = |f: bool| if f { CLASS_IN | CLASS_CACHE_FLUSH } else { CLASS_IN };

    set_clock(t0);
    let old = DnsAddress::new("h.", RRType::A, cls(fl_old), ttl_old, IpAddr::V4(Ipv4Addr::from(ip_old)), intf_id(idx_old));
    let r = cache.add_or_update(&intf(idx_old), old.boxed(), &mut timers, true);
    assert!(r.is_some() && r.unwrap().1, "first record of a name must be inserted as new");
    let n_timers0 = timers.len();
    let exp_old = t0 + 1000 * ttl_old as u64;

    set_clock(now);
    let inc = DnsAddress::new("h.", RRType::A, cls(fl_in), ttl_in, IpAddr::V4(Ipv4Addr::from(ip_in)), intf_id(idx_in));
    let r = cache.add_or_update(&intf(idx_in), inc.boxed(), &mut timers, true);
    assert!(r.is_some());
    let is_new = r.unwrap().1;

    let same = ip_old == ip_in && idx_old == idx_in && fl_old == fl_in;
    let should_flush = fl_in && now > t0 + 1000 && exp_old > now + 1000 && idx_old == idx_in;
    assert!(is_new == !same, "identical record must be refreshed in place, different one inserted");
    let v = cache.get_addr("h.").unwrap();
    assert!(v.len() == if same { 1 } else { 2 });
    if same {
        let (_, _, created, expires, ttl, _, _) = addr_of(&v[0]);
        assert!(created == now && ttl == ttl_in && expires == now + 1000 * ttl_in as u64, "refresh must restart the lifetime from the new TTL");
    } else {
        let (ip, idx, created, expires, ttl, fl, _) = addr_of(&v[0]);
        assert!(ip == ip_in && idx == idx_in && fl == fl_in && created == now && ttl == ttl_in && expires == now + 1000 * ttl_in as u64, "the new record is stored first with its own full lifetime");
        let (ip, idx, created, expires, ttl, fl, _) = addr_of(&v[1]);
        assert!(ip == ip_old && idx == idx_old && fl == fl_old && created == t0 && ttl == ttl_old, "old record identity changed");
        if should_flush {
            assert!(expires == now + 1000, "a flushed record must expire one second later");
        } else {
            assert!(expires == exp_old, "a record that must not be flushed changed its expiry");
        }
    }
    if should_flush {
        assert!(timers.len() == n_timers0 + 1 && timers[n_timers0] == now + 1000, "no wake-up requested for the flushed record's new expiry");
    } else {
        assert!(timers.len() == n_timers0, "spurious timer");
    }
    kani::cover!(should_flush && !same, "flushed");
    kani::cover!(fl_in && !(now > t0 + 1000) && idx_old == idx_in && !same, "too_young");
    kani::cover!(fl_in && now > t0 + 1000 && exp_old > now + 1000 && idx_old != idx_in, "other_interface");
    kani::cover!(!fl_in && now > t0 + 1000 && exp_old > now + 1000 && !same, "no_flush_bit");
    kani::cover!(same, "refreshed_in_place");
    kani::cover!(fl_in && now > t0 + 1000 && !(exp_old > now + 1000) && idx_old == idx_in && !same, "about_to_expire");
    core::mem::forget(cache);
}

// @harness c20_not_for_us
// @property X20
// @maps vmap
// @tier quick
// @functions DnsCache::add_or_update
// @bound empty cache; one incoming record of each storable kind (PTR, SRV, TXT, A, NSEC-less) with symbolic TTL/class, offered with is_for_us = false
// @oracle nothing is stored: add_or_update returns None and every per-kind count stays 0 (traffic nobody asked for does not grow the cache)
// @stubs clock(overlay), ascii_lower (names in the harness are ASCII)
// @covers ptr, srv, txt, addr
#[kani::proof]
#[kani::unwind(5)]
#[kani::stub(str::to_lowercase, crate::verif_support::ascii_lower)]
fn c20_not_for_us() {
    let mut cache = DnsCache::new();
    let mut timers: Vec<u64> = Vec::with_capacity(4);
    set_clock(any_time());
    let k: u8 = kani::any();
    kani::assume(k < 4);
    let rec: DnsRecordBox = match k {
        0 => DnsPointer::new("t.", RRType::PTR, kani::any(), kani::any(), String::from("i.t.")).boxed(),
        1 => DnsSrv::new("i.t.", kani::any(), kani::any(), 0, 0, kani::any(), String::from("h.")).boxed(),
        2 => DnsTxt::new("i.t.", kani::any(), kani::any(), vec![0]).boxed(),
        _ => DnsAddress::new("h.", RRType::A, kani::any(), kani::any(), IpAddr::V4(Ipv4Addr::from(kani::any::<u32>())), intf_id(1)).boxed(),
    };
    let r = cache.add_or_update(&intf(1), rec, &mut timers, false);
    assert!(r.is_none(), "a record nobody asked for was cached");
    assert!(cache.ptr_count() + cache.srv_count() + cache.txt_count() + cache.addr_count() + cache.nsec_count() == 0);
    assert!(cache.subtype_count() == 0 && timers.is_empty());
    kani::cover!(k == 0, "ptr");
    kani::cover!(k == 1, "srv");
    kani::cover!(k == 2, "txt");
    kani::cover!(k == 3, "addr");
    core::mem::forget(cache);
}

// @harness c18_iptype_contains
// @property C18
// @tier quick
// @functions IpType::contains, IpType::bitor
// @bound every pair of IpType values over {V4, V6, V4 | V6} (symbolic choice)
// @oracle a.contains(b) <=> every family of b is in a; in particular BOTH contains V4 and V6, and neither single family contains BOTH ("disable an interface or one of its IP families")
// @covers both_contains_single, single_lacks_both
#[kani::proof]
#[kani::unwind(2)]
fn c18_iptype_contains() {
    let pick = |k: u8| match k {
        0 => IpType::V4,
        1 => IpType::V6,
        _ => IpType::V4 | IpType::V6,   // both families (not the BOTH constant: a change that drops it must still compile here)
    };
    let (ka, kb): (u8, u8) = (kani::any(), kani::any());
    kani::assume(ka < 3 && kb < 3);
    let fam = |k: u8| -> (bool, bool) { (k == 0 || k == 2, k == 1 || k == 2) };
    let (a4, a6) = fam(ka);
    let (b4, b6) = fam(kb);
    let want = (!b4 || a4) && (!b6 || a6);
    assert!(pick(ka).contains(pick(kb)) == want, "IpType::contains is not the subset test");
    assert!((IpType::V4 | IpType::V6).contains(IpType::V4) && (IpType::V4 | IpType::V6).contains(IpType::V6));
    kani::cover!(ka == 2 && kb == 0, "both_contains_single");
    kani::cover!(ka == 1 && kb == 2, "single_lacks_both");
}
