// Engine A harnesses for src/service_daemon.rs (child module, cfg(kani) only).
#![allow(unused_imports, dead_code, clippy::all)]

use super::*;
use crate::dns_parser::verif_kani::mk_incoming;
use crate::verif_support as vs;
use crate::verif_support::{any_time, set_clock};
use if_addrs::{IfOperStatus, Ifv4Addr, Ifv6Addr};
use std::net::{Ipv4Addr, Ipv6Addr};

// ---------------------------------------------------------------------------
// C18 - interface selection predicate
// ---------------------------------------------------------------------------

fn any_interface() -> (Interface, bool, bool, u32, u8) {
    // (interface, is_v4, is_loopback, index, name selector)
    let v4: bool = kani::any();
    let lo: bool = kani::any();
    let idx: u32 = kani::any();
    let has_idx: bool = kani::any();
    let nsel: u8 = kani::any();
    kani::assume(nsel < 2);
    let addr = if v4 {
        let ip: u32 = kani::any();
        kani::assume(((ip >> 24) == 127) == lo);
        IfAddr::V4(Ifv4Addr { ip: Ipv4Addr::from(ip), netmask: Ipv4Addr::from(0xFFFFFF00u32), prefixlen: 24, broadcast: None })
    } else {
        let ip: u128 = kani::any();
        kani::assume((ip == 1) == lo);
        IfAddr::V6(Ifv6Addr { ip: Ipv6Addr::from(ip), netmask: Ipv6Addr::from(u128::MAX << 64), prefixlen: 64, broadcast: None })
    };
    let i = Interface {
        name: String::from(if nsel == 0 { "en0" } else { "lo0" }),
        addr,
        index: if has_idx { Some(idx) } else { None },
        oper_status: IfOperStatus::Up,
        is_p2p: false,
    };
    (i, v4, lo, if has_idx { idx } else { u32::MAX }, nsel)
}

// @harness c18_ifkind_matches
// @property C18
// @tier quick
// @functions IfKind::matches
// @bound every selection kind except Predicate (All, IPv4, IPv6, Name(en0|lo0), Addr(v4), LoopbackV4/V6, IndexV4/V6 with any index) against an interface with symbolic family, address, loop-back-ness, optional index and one of two names
// @oracle the table of IfKind: family kinds match the family; Name the name; Addr the exact address; Loopback the loop-back address of that family; IndexV4/V6 the index and the family (an interface without index matches no index)
// @covers name_match, index_v6_match, loopback_v4_match, addr_match
#[kani::proof]
#[kani::unwind(6)]
fn c18_ifkind_matches() {
    let (i, v4, lo, idx, nsel) = any_interface();
    let has_idx = i.index.is_some();
    assert!(IfKind::All.matches(&i));
    assert!(IfKind::IPv4.matches(&i) == v4);
    assert!(IfKind::IPv6.matches(&i) == !v4);
    assert!(IfKind::Name(String::from("en0")).matches(&i) == (nsel == 0));
    assert!(IfKind::Name(String::from("lo0")).matches(&i) == (nsel == 1));
    assert!(IfKind::LoopbackV4.matches(&i) == (lo && v4));
    assert!(IfKind::LoopbackV6.matches(&i) == (lo && !v4));
    let q: u32 = kani::any();
    assert!(IfKind::IndexV4(q).matches(&i) == (has_idx && q == idx && v4));
    assert!(IfKind::IndexV6(q).matches(&i) == (has_idx && q == idx && !v4));
    let a: u32 = kani::any();
    let want = match i.addr {
        IfAddr::V4(ref x) => u32::from(x.ip) == a,
        _ => false,
    };
    assert!(IfKind::Addr(IpAddr::V4(Ipv4Addr::from(a))).matches(&i) == want);
    kani::cover!(nsel == 0, "name_match");
    kani::cover!(has_idx && q == idx && !v4, "index_v6_match");
    kani::cover!(lo && v4, "loopback_v4_match");
    kani::cover!(want, "addr_match");
    core::mem::forget(i);
}

// ---------------------------------------------------------------------------
// C07 - one probing step
// ---------------------------------------------------------------------------

// @harness c07_check_probing_step
// @property X07
// @maps vmap
// @tier quick
// @functions check_probing, Probe::expired, Probe::update_next_send, DnsOutgoing::add_question, DnsOutgoing::add_authority
// @bound registry with one probe holding one A record (symbolic address); symbolic start_time, next_send and now (< 2^62, next_send >= start_time)
// @oracle now < next_send: nothing happens; else if now >= start + 750: the name is reported finished and no question is sent; else exactly one ANY question for the name with the probe's record as authority, next_send' == now + 250 and that instant is pushed as a timer
// @stubs clock(overlay)
// @covers idle, finished, probe_sent
#[kani::proof]
#[kani::unwind(4)]
fn c07_check_probing_step() {
    let start = any_time();
    let next = any_time();
    let now = any_time();
    kani::assume(next >= start);
    set_clock(start);
    let mut reg = DnsRegistry::new();
    let mut p = Probe::new(start);
    p.next_send = next;
    p.records = Vec::with_capacity(2);
    p.insert_record(DnsAddress::new("h.", RRType::A, CLASS_IN | CLASS_CACHE_FLUSH, 120, IpAddr::V4(Ipv4Addr::from(kani::any::<u32>())), InterfaceId::default()).boxed());
    reg.probing.insert(String::from("h."), p);
    let mut timers: BinaryHeap<Reverse<u64>> = BinaryHeap::with_capacity(4);
    let (out, done) = check_probing(&mut reg, &mut timers, now);
    let pr = reg.probing.get("h.").unwrap();
    if now < next {
        assert!(out.questions().is_empty() && done.is_empty() && timers.is_empty() && pr.next_send == next, "a probe was sent before it was due");
        kani::cover!(true, "idle");
    } else if now >= start + 750 {
        assert!(done.len() == 1 && out.questions().is_empty() && out.authorities().is_empty(), "finished probe must be reported and send nothing");
        assert!(timers.is_empty());
        kani::cover!(true, "finished");
    } else {
        assert!(done.is_empty());
        assert!(out.questions().len() == 1 && out.questions()[0].entry.ty == RRType::ANY, "exactly one ANY question per probe");
        assert!(out.authorities().len() == 1 && out.authorities()[0].get_type() == RRType::A, "proposed records go into the authority section");
        assert!(pr.next_send == now + 250 && pr.start_time == start, "next probe 250 ms later");
        assert!(timers.len() == 1 && timers.peek().unwrap().0 == now + 250, "no wake-up requested for the next probe");
        kani::cover!(true, "probe_sent");
    }
    core::mem::forget(out);
    core::mem::forget(done);
    core::mem::forget(reg);
}

// ---------------------------------------------------------------------------
// C06 - SRV / TXT / ANY answers for an instance name
// ---------------------------------------------------------------------------
fn svc_for_answers(port: u16, prio: u16, weight: u16, host_ttl: u32, other_ttl: u32) -> ServiceInfo {
    // Built through the public constructor is out of reach (format!/split); the harness-only
    // constructor below fills the same fields ServiceInfo::new fills.
    crate::service_info::verif_kani::svc_literal(port, prio, weight, host_ttl, other_ttl)
}

macro_rules! c06_answer_of_service {
    ($name:ident, $qtype:expr, $srv:expr, $txt:expr, $addi:expr) => {
        #[kani::proof]
        #[kani::unwind(8)]
        fn $name() {
            set_clock(any_time());
            let (port, prio, weight): (u16, u16, u16) = (kani::any(), kani::any(), kani::any());
            let (host_ttl, other_ttl): (u32, u32) = (kani::any(), kani::any());
            let svc = svc_for_answers(port, prio, weight, host_ttl, other_ttl);
            let ip: u32 = kani::any();
            let msg = mk_incoming(Vec::with_capacity(1), 0, 0);
            let mut out = DnsOutgoing::new(FLAGS_QR_RESPONSE | FLAGS_AA);
            let mut addrs = Vec::with_capacity(1);
            addrs.push(IpAddr::V4(Ipv4Addr::from(ip)));
            // the host name as resolved by the registry (after a conflict rename it differs from the registered one)
            add_answer_of_service_as(&mut out, &msg, "i.t.", &svc, "r.", $qtype, addrs);
            let n_ans = (if $srv { 1 } else { 0 }) + (if $txt { 1 } else { 0 });
            assert!(out.answers_count() == n_ans, "wrong set of answers for this question type");
            assert!(out.additionals().len() == if $addi { 1 } else { 0 }, "wrong additionals for this question type");
            let mut k = 0;
            if $srv {
                let r = &out._answers()[k].0;
                let s = r.any().downcast_ref::<DnsSrv>().unwrap();
                assert!(s.port() == port && s.priority == prio && s.weight == weight, "SRV values differ from the registered ones");
                assert!(s.host().as_bytes() == b"r.", "SRV target is not the resolved host name");
                assert!(r.get_record().get_ttl() == host_ttl && r.get_cache_flush() && r.get_class() == CLASS_IN, "SRV: host TTL, cache-flush, class IN");
                k += 1;
            }
            if $txt {
                let r = &out._answers()[k].0;
                assert!(r.get_type() == RRType::TXT && r.get_record().get_ttl() == other_ttl && r.get_cache_flush(), "TXT: other TTL, cache-flush");
            }
            if $addi {
                let a = &out.additionals()[0];
                assert!(a.get_type() == RRType::A && a.get_record().get_ttl() == host_ttl && a.get_cache_flush(), "address additional: host TTL (120 s class), cache-flush");
                assert!(a.get_name().as_bytes() == b"r.", "address additional is not owned by the resolved host name");
            }
            kani::cover!(host_ttl == 120 && other_ttl == 4500, "default_ttls");
            core::mem::forget(out);
            core::mem::forget(msg);
            core::mem::forget(svc);
        }
    };
}

// @harness c06_answer_srv
// @property C06
// @maps vmap
// @tier quick
// @functions add_answer_of_service_as, DnsOutgoing::add_answer, DnsOutgoing::add_additional_answer, ServiceInfo getters
// @bound an SRV question for a registered instance: symbolic port/priority/weight, host TTL and other TTL (every u32), one IPv4 address on the link; no known answers
// @oracle exactly one answer: SRV with the registered values, host TTL, cache-flush; exactly one additional: the A record with the HOST ttl and cache-flush
// @stubs clock(overlay)
// @covers default_ttls
c06_answer_of_service!(c06_answer_srv, RRType::SRV, true, false, true);

// @harness c06_answer_txt
// @property C06
// @maps vmap
// @tier quick
// @functions add_answer_of_service_as
// @bound a TXT question for a registered instance (same symbolic service)
// @oracle exactly one answer: TXT with the other TTL and cache-flush; no additionals
// @stubs clock(overlay)
// @covers default_ttls
c06_answer_of_service!(c06_answer_txt, RRType::TXT, false, true, false);

// @harness c06_answer_any
// @property C06
// @maps vmap
// @tier quick
// @functions add_answer_of_service_as
// @bound an ANY question for a registered instance (same symbolic service)
// @oracle SRV then TXT as answers (host TTL / other TTL, cache-flush), no additionals
// @stubs clock(overlay)
// @covers default_ttls
c06_answer_of_service!(c06_answer_any, RRType::ANY, true, true, false);

// ---------------------------------------------------------------------------
// C10 / C06 - the PTR answer with its additionals, and their suppression
// ---------------------------------------------------------------------------

// @harness c10_ptr_additionals
// @property X10
// @maps vmap
// @tier quick
// @functions DnsOutgoing::add_answer_with_additionals, DnsOutgoing::add_answer, DnsRecordExt::suppressed_by, ServiceInfo::get_addrs_on_my_intf_v4, valid_ip_on_intf
// @bound a registered instance with a subtype and one IPv4 address on the interface's /24 (concrete address and port, symbolic host/other TTLs); the query lists the instance's PTR as a known answer with every TTL (u32)
// @oracle PTR suppressed (listed TTL above half of ours) => the response gets NO answer and NO additional at all (also not the subtype PTR); otherwise exactly the PTR answer (other TTL, no flush) and the additionals subtype PTR, SRV (host TTL, flush), TXT (other TTL, flush), A (host TTL, flush, that address)
// @stubs clock(overlay)
// @covers suppressed, answered
#[kani::proof]
#[kani::unwind(6)]
fn c10_ptr_additionals() {
    set_clock(any_time());
    let (port, host_ttl, other_ttl): (u16, u32, u32) = (4000, kani::any(), kani::any());
    let mut svc = crate::service_info::verif_kani::svc_literal(port, 0, 0, host_ttl, other_ttl);
    let addr = Ipv4Addr::new(10, 0, 0, 5);
    crate::service_info::verif_kani::svc_add_addr_and_subtype(&mut svc, IpAddr::V4(addr), "s.t.");
    let mut addrs = HashSet::new();
    addrs.insert(IfAddr::V4(Ifv4Addr { ip: Ipv4Addr::new(10, 0, 0, 1), netmask: Ipv4Addr::new(255, 255, 255, 0), prefixlen: 24, broadcast: None }));
    let intf = MyIntf { name: String::from("e"), index: 1, addrs };
    let reg = DnsRegistry::new();
    let mut msg = mk_incoming(Vec::with_capacity(1), 0, 0);
    let listed: bool = true;
    let known_ttl: u32 = kani::any();
    if listed {
        msg.answers_mut().push(DnsPointer::new("t.", RRType::PTR, CLASS_IN, known_ttl, String::from("i.t.")).boxed());
    }
    let mut out = DnsOutgoing::new(FLAGS_QR_RESPONSE | FLAGS_AA);
    out.add_answer_with_additionals(&msg, &svc, &intf, &reg, true);
    let suppressed = listed && known_ttl > other_ttl / 2;
    if suppressed {
        assert!(out.answers_count() == 0, "a suppressed PTR was answered");
        assert!(out.additionals().is_empty(), "a suppressed PTR still brought additionals");
        assert!(out.known_answer_count() == 1);
        kani::cover!(true, "suppressed");
    } else {
        assert!(out.answers_count() == 1 && out.known_answer_count() == 0);
        let p = &out._answers()[0].0;
        assert!(p.get_type() == RRType::PTR && p.get_record().get_ttl() == other_ttl && !p.get_cache_flush());
        assert!(out.additionals().len() == 4, "additionals must be subtype PTR, SRV, TXT and the address");
        let a = out.additionals();
        assert!(a[0].get_type() == RRType::PTR && a[1].get_type() == RRType::SRV && a[2].get_type() == RRType::TXT && a[3].get_type() == RRType::A);
        assert!(a[1].get_record().get_ttl() == host_ttl && a[1].get_cache_flush() && a[1].any().downcast_ref::<DnsSrv>().unwrap().port() == port);
        assert!(a[2].get_record().get_ttl() == other_ttl && a[2].get_cache_flush());
        assert!(a[3].get_record().get_ttl() == host_ttl && a[3].get_cache_flush());
        kani::cover!(listed, "answered");
    }
    core::mem::forget(out);
    core::mem::forget(msg);
    core::mem::forget(svc);
    core::mem::forget(intf);
    core::mem::forget(reg);
}
