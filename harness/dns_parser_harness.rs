// Engine A harnesses for src/dns_parser.rs.  Compiled as a child module of
// `dns_parser` in the scratch overlay (cfg(kani) only), so `super::*` gives
// access to private items.  Each harness is preceded by a `// @key value`
// block that bin/check copies into the evidence file.
#![allow(unused_imports, dead_code, clippy::all)]

use super::*;
use crate::verif_support as vs;
use crate::verif_support::{any_time, set_clock};

// ---------------------------------------------------------------------------
// helpers
// ---------------------------------------------------------------------------

const NAMES: [&str; 2] = ["a.local.", "b.local."];

fn any_name_idx() -> usize {
    let i: usize = kani::any();
    kani::assume(i < NAMES.len());
    i
}

fn any_record(name: &str, ty: RRType) -> DnsRecord {
    // A record in the state `DnsRecord::new` leaves it in, with symbolic class/ttl/clock.
    let class: u16 = kani::any();
    let ttl: u32 = kani::any();
    set_clock(any_time());
    DnsRecord::new(name, ty, class, ttl)
}

fn entry_same(a: &DnsRecord, b: &DnsRecord, ia: usize, ib: usize) -> bool {
    // owner, type, class (flush flag excluded: RFC 6762 10.2 - it is not part of the class)
    ia == ib && a.entry.ty == b.entry.ty && a.entry.class == b.entry.class
}

fn check_suppression(mine: &dyn DnsRecordExt, other: &dyn DnsRecordExt, same: bool) {
    let m = mine.get_record().ttl as u64;
    let o = other.get_record().ttl as u64;
    let sup = mine.suppressed_by_answer(other);
    if 2 * o < m {
        assert!(!sup, "suppressed although known-answer TTL is below half");
    }
    if !same {
        assert!(!sup, "suppressed by a different record");
    }
    if same && 2 * o > m {
        assert!(sup, "same record above half TTL was not suppressed");
    }
    kani::cover!(sup, "suppressed");
    kani::cover!(!sup && same, "same_but_not_suppressed");
    kani::cover!(!sup && !same, "different");
}

// ---------------------------------------------------------------------------
// C10 - known-answer suppression, responder side
// ---------------------------------------------------------------------------

// @harness c10_suppressed_srv
// @property C10
// @tier quick
// @functions DnsRecordExt::suppressed_by_answer, DnsSrv::matches, DnsEntry::eq
// @bound all u32 x u32 TTLs, all u16 class/priority/weight/port on both sides; owner names and SRV targets drawn from a 2-element list of concrete names
// @oracle same := owner, type, class(without flush bit), priority, weight, port, target equal
// @outside symbolic name text; records of different Rust types (covered by c10_suppressed_cross)
// @stubs clock(overlay)
// @covers suppressed, same_but_not_suppressed, different
#[kani::proof]
#[kani::unwind(10)]
fn c10_suppressed_srv() {
    let (ia, ib, ha, hb) = (any_name_idx(), any_name_idx(), any_name_idx(), any_name_idx());
    let mut a = DnsSrv::new(NAMES[ia], kani::any(), kani::any(), kani::any(), kani::any(), kani::any(), NAMES[ha].to_string());
    let b = DnsSrv::new(NAMES[ib], kani::any(), kani::any(), kani::any(), kani::any(), kani::any(), NAMES[hb].to_string());
    let _ = &mut a;
    let same = entry_same(&a.record, &b.record, ia, ib)
        && a.priority == b.priority
        && a.weight == b.weight
        && a.port == b.port
        && ha == hb;
    check_suppression(&a, &b, same);
    core::mem::forget(a);
    core::mem::forget(b);
}

// ---------------------------------------------------------------------------
// C11 - lifetime arithmetic, single-call Kani twins of the Engine B summaries
// ---------------------------------------------------------------------------

// @harness c11_twin_new_lifetime
// @property C11 C05
// @tier quick
// @functions DnsRecord::new, get_expiration_time, DnsRecord::is_expired, DnsRecord::expires_soon, DnsRecord::refresh_due
// @bound every ttl: u32, every clock reading < 2^62, every observation time now < 2^62
// @oracle expires == created + 1000*ttl, refresh == created + 800*ttl (u64, no wrap)
// @stubs clock(overlay)
// @covers expired, live, refresh_due_not_expired
#[kani::proof]
#[kani::unwind(10)]
fn c11_twin_new_lifetime() {
    let ttl: u32 = kani::any();
    let t = any_time();
    set_clock(t);
    let r = DnsRecord::new("a.local.", RRType::A, CLASS_IN, ttl);
    assert!(r.created == t);
    assert!(r.expires == t + 1000 * ttl as u64);
    assert!(r.refresh == t + 800 * ttl as u64);
    let now = any_time();
    assert!(r.is_expired(now) == (now >= t + 1000 * ttl as u64));
    assert!(r.expires_soon(now) == (now + 1000 >= t + 1000 * ttl as u64));
    assert!(r.refresh_due(now) == (now >= t + 800 * ttl as u64));
    kani::cover!(r.is_expired(now), "expired");
    kani::cover!(!r.is_expired(now), "live");
    kani::cover!(r.refresh_due(now) && !r.is_expired(now), "refresh_due_not_expired");
    core::mem::forget(r);
}

// ---------------------------------------------------------------------------
// C01 - decoding any datagram is safe, terminating and bounded
// ---------------------------------------------------------------------------

pub(crate) fn mk_incoming(data: Vec<u8>, offset: usize, flags: u16) -> DnsIncoming {
    // An arbitrary parser state: any buffer, any cursor.  One reader call from here
    // covers every position a longer packet could put the cursor in.
    DnsIncoming {
        offset,
        data,
        questions: Vec::new(),
        // pre-sized: Kani 0.68 mis-models the first push into a zero-capacity Vec<Box<dyn DnsRecordExt>>
        answers: Vec::with_capacity(4),
        authorities: Vec::with_capacity(4),
        additional: Vec::with_capacity(4),
        id: 0,
        flags,
        num_questions: 0,
        num_answers: 0,
        num_authorities: 0,
        num_additionals: 0,
        interface_id: InterfaceId::default(),
    }
}

/// Counting twin of `u16_from_be_slice` (only used by the read_name harnesses, where it marks one
/// pointer-branch iteration; the RR harnesses run the real function).
fn u16_from_be_slice_ticking(bytes: &[u8]) -> u16 {
    crate::verif_support::tick();
    ((bytes[0] as u16) << 8) | bytes[1] as u16
}

macro_rules! c01_read_name {
    ($name:ident, $n:expr, $u:literal) => {
        #[kani::proof]
        #[kani::unwind($u)]
        #[kani::stub(alloc::fmt::format, crate::verif_support::fmt_format)]
        #[kani::stub(core::str::from_utf8, crate::verif_support::utf8_model)]
        #[kani::stub(super::u16_from_be_slice, u16_from_be_slice_ticking)]
        fn $name() {
            const N: usize = $n;
            let bytes: [u8; N] = kani::any();
            let off: usize = kani::any();
            kani::assume(off <= N);
            // every loop iteration of read_name passes through from_utf8 (label) or
            // u16_from_be_slice (pointer); both tick.  Budget N+1: shown sufficient for the code
            // under test by this very check (a run that needs more fails the ghost assertion and
            // goes to native replay, where only a real hang counts).
            crate::verif_support::set_step_budget(N as u32 + 1);
            let mut inc = mk_incoming(bytes.to_vec(), off, 0);
            let r = inc.read_name();
            match &r {
                Ok(name) => {
                    assert!(inc.offset <= N, "cursor left the datagram");
                    assert!(inc.offset > off, "cursor did not advance");
                    assert!(name.len() <= 2 * N, "name out of proportion to the datagram");
                    kani::cover!(name.len() == 0, "ok_root");
                    kani::cover!(inc.offset == off + 2 && bytes[off] >= 0xC0, "ok_pointer_followed");
                    kani::cover!(name.len() == N - 1, "ok_longest_plain");
                }
                Err(_) => {
                    kani::cover!(true, "err");
                }
            }
            core::mem::forget(r);
            core::mem::forget(inc);
        }
    };
}

// @harness c01_read_name_4
// @property C01 C15
// @tier quick
// @functions DnsIncoming::read_name
// @bound buffer of exactly 4 symbolic bytes (2^32 contents), start offset symbolic in 0..=4: an arbitrary parser state
// @unwind 7 (ghost budget N+1 = 5 iterations fires first)
// @termination read_name
// @oracle Result, never panic; on Ok: start < cursor <= N and name.len() <= 2N (a pointer that jumps behind the start lets earlier bytes be read once more under another label framing, e.g. 01 04 02 40 02 00 c0 00 from offset 1 gives 10 characters; the protocol cap of 255 is decided by c01_name_cap_operand)
// @outside buffers longer than 4 bytes in this harness (5, 6, 8 in thorough); everything after the name
// @stubs fmt_format, utf8_model(+tick), u16_from_be_slice(+tick)
// @covers ok_root, ok_pointer_followed, ok_longest_plain, err
// @lift name
c01_read_name!(c01_read_name_4, 4, 7);

// @harness c01_read_name_5
// @property C01 C15
// @tier thorough
// @functions DnsIncoming::read_name
// @bound buffer of exactly 5 symbolic bytes (2^40 contents), start offset symbolic in 0..=5: an arbitrary parser state
// @unwind 8 (ghost budget N+1 = 6 iterations fires first: each iteration consumes a label of >=1 byte or follows a pointer to a strictly smaller target)
// @termination read_name
// @oracle Result, never panic; on Ok: start < cursor <= N and name.len() <= 2N (a pointer that jumps behind the start lets earlier bytes be read once more under another label framing, e.g. 01 04 02 40 02 00 c0 00 from offset 1 gives 10 characters; the protocol cap of 255 is decided by c01_name_cap_operand)
// @outside buffers longer than 5 bytes in this harness (8 in thorough); everything after the name
// @stubs fmt_format, utf8_model(+tick), u16_from_be_slice(+tick)
// @covers ok_root, ok_pointer_followed, ok_longest_plain, err
// @lift name
c01_read_name!(c01_read_name_5, 5, 8);

// @harness c01_read_name_6
// @property C01 C15
// @tier thorough
// @functions DnsIncoming::read_name
// @bound buffer of exactly 6 symbolic bytes (2^48 contents), start offset symbolic in 0..=6
// @unwind 9 (ghost budget N+1 = 7 fires first)
// @termination read_name
// @oracle Result, never panic; on Ok: start < cursor <= N and name.len() <= 2N
// @outside buffers longer than 6 bytes in this harness
// @stubs fmt_format, utf8_model(+tick), u16_from_be_slice(+tick)
// @covers ok_root, ok_pointer_followed, ok_longest_plain, err
// @lift name
c01_read_name!(c01_read_name_6, 6, 9);

// @harness c01_read_name_8
// @property C01 C15
// @tier thorough
// @functions DnsIncoming::read_name
// @bound buffer of exactly 8 symbolic bytes (2^64 contents), start offset symbolic in 0..=8
// @unwind 11 (ghost budget N+1 = 9 fires first)
// @termination read_name
// @oracle Result, never panic; on Ok: start < cursor <= N and name.len() <= 2N (a pointer that jumps behind the start lets earlier bytes be read once more under another label framing, e.g. 01 04 02 40 02 00 c0 00 from offset 1 gives 10 characters; the protocol cap of 255 is decided by c01_name_cap_operand)
// @outside buffers longer than 8 bytes
// @stubs fmt_format, utf8_model(+tick), u16_from_be_slice(+tick)
// @covers ok_root, ok_pointer_followed, ok_longest_plain, err
// @lift name
// @timeout 2400
c01_read_name!(c01_read_name_8, 8, 11);

// ---------------------------------------------------------------------------
// C10 (continued) - the other record types, cross-type pairs, add_answer
// ---------------------------------------------------------------------------

fn any_ip(v6: bool) -> IpAddr {
    if v6 {
        IpAddr::V6(Ipv6Addr::from(kani::any::<u128>()))
    } else {
        IpAddr::V4(Ipv4Addr::from(kani::any::<u32>()))
    }
}

fn any_small_vec() -> Vec<u8> {
    // length 0..=2, contents symbolic
    let n: u8 = kani::any();
    kani::assume(n <= 2);
    let mut v = Vec::with_capacity(2); // (an empty Vec's dangling pointer trips CBMC's allocation model)
    if n > 0 {
        v.push(kani::any());
    }
    if n > 1 {
        v.push(kani::any());
    }
    v
}

fn vec_eq(a: &[u8], b: &[u8]) -> bool {
    if a.len() != b.len() {
        return false;
    }
    let mut i = 0;
    while i < a.len() {
        if a[i] != b[i] {
            return false;
        }
        i += 1;
    }
    true
}

// @harness c10_suppressed_addr
// @property C10
// @tier quick
// @functions DnsRecordExt::suppressed_by_answer, DnsAddress::matches
// @bound all TTL pairs (u32 x u32), all classes, A and AAAA with every address (u32 / u128) on both sides; owner from a 2-name list; both records carry the same interface id
// @oracle same := owner, type, class(without flush bit), address equal
// @outside records learned on different interfaces
// @unwind 18 (memcmp over 16 address bytes)
// @stubs clock(overlay)
// @covers suppressed, same_but_not_suppressed, different
#[kani::proof]
#[kani::unwind(18)]
fn c10_suppressed_addr() {
    let (ia, ib) = (any_name_idx(), any_name_idx());
    let (va, vb): (bool, bool) = (kani::any(), kani::any());
    let (ipa, ipb) = (any_ip(va), any_ip(vb));
    set_clock(any_time());
    let a = DnsAddress::new(NAMES[ia], ip_address_rr_type(&ipa), kani::any(), kani::any(), ipa, InterfaceId::default());
    let b = DnsAddress::new(NAMES[ib], ip_address_rr_type(&ipb), kani::any(), kani::any(), ipb, InterfaceId::default());
    let same = entry_same(&a.record, &b.record, ia, ib) && ipa == ipb;
    check_suppression(&a, &b, same);
    core::mem::forget(a);
    core::mem::forget(b);
}

// @harness c10_suppressed_ptr
// @property C10
// @tier quick
// @functions DnsRecordExt::suppressed_by_answer, DnsPointer::matches
// @bound all TTL pairs, all classes; owner and alias from a 2-name list; type PTR or CNAME
// @oracle same := owner, type, class(without flush bit), alias equal
// @stubs clock(overlay)
// @covers suppressed, same_but_not_suppressed, different
#[kani::proof]
#[kani::unwind(10)]
fn c10_suppressed_ptr() {
    let (ia, ib, aa, ab) = (any_name_idx(), any_name_idx(), any_name_idx(), any_name_idx());
    let ta = if kani::any() { RRType::PTR } else { RRType::CNAME };
    let tb = if kani::any() { RRType::PTR } else { RRType::CNAME };
    set_clock(any_time());
    let a = DnsPointer::new(NAMES[ia], ta, kani::any(), kani::any(), NAMES[aa].to_string());
    let b = DnsPointer::new(NAMES[ib], tb, kani::any(), kani::any(), NAMES[ab].to_string());
    let same = entry_same(&a.record, &b.record, ia, ib) && aa == ab;
    check_suppression(&a, &b, same);
    core::mem::forget(a);
    core::mem::forget(b);
}

// @harness c10_suppressed_txt
// @property C10
// @tier quick
// @functions DnsRecordExt::suppressed_by_answer, DnsTxt::matches
// @bound all TTL pairs, all classes; owner from a 2-name list; TXT rdata of 0..=2 symbolic bytes on each side
// @oracle same := owner, class(without flush bit), rdata bytes equal
// @outside TXT rdata longer than 2 bytes
// @stubs clock(overlay)
// @covers suppressed, same_but_not_suppressed, different
#[kani::proof]
#[kani::unwind(10)]
fn c10_suppressed_txt() {
    let (ia, ib) = (any_name_idx(), any_name_idx());
    let (ta, tb) = (any_small_vec(), any_small_vec());
    let rd_same = vec_eq(&ta, &tb);
    set_clock(any_time());
    let a = DnsTxt::new(NAMES[ia], kani::any(), kani::any(), ta);
    let b = DnsTxt::new(NAMES[ib], kani::any(), kani::any(), tb);
    let same = entry_same(&a.record, &b.record, ia, ib) && rd_same;
    check_suppression(&a, &b, same);
    core::mem::forget(a);
    core::mem::forget(b);
}

// @harness c10_suppressed_cross
// @property C10
// @tier quick
// @functions DnsRecordExt::suppressed_by_answer, DnsSrv::matches, DnsTxt::matches, DnsPointer::matches, DnsAddress::matches
// @bound every ordered pair of distinct record kinds among {SRV, TXT, PTR, A}; all TTLs and classes; same owner name
// @oracle a record is never suppressed by a record of another kind
// @stubs clock(overlay)
// @covers pair_srv_txt, pair_ptr_a
#[kani::proof]
#[kani::unwind(10)]
fn c10_suppressed_cross() {
    set_clock(any_time());
    let mk = |k: u8| -> DnsRecordBox {
        match k {
            0 => DnsSrv::new("a.local.", kani::any(), kani::any(), kani::any(), kani::any(), kani::any(), "b.local.".to_string()).boxed(),
            1 => DnsTxt::new("a.local.", kani::any(), kani::any(), any_small_vec()).boxed(),
            2 => DnsPointer::new("a.local.", RRType::PTR, kani::any(), kani::any(), "b.local.".to_string()).boxed(),
            _ => DnsAddress::new("a.local.", RRType::A, kani::any(), kani::any(), any_ip(false), InterfaceId::default()).boxed(),
        }
    };
    let (ka, kb): (u8, u8) = (kani::any(), kani::any());
    kani::assume(ka < 4 && kb < 4 && ka != kb);
    let a = mk(ka);
    let b = mk(kb);
    assert!(!a.suppressed_by_answer(b.as_ref()), "suppressed by a record of another kind");
    kani::cover!(ka == 0 && kb == 1, "pair_srv_txt");
    kani::cover!(ka == 2 && kb == 3, "pair_ptr_a");
    core::mem::forget(a);
    core::mem::forget(b);
}

// @harness c10_add_answer
// @property C10
// @tier quick
// @functions DnsOutgoing::add_answer, DnsRecordExt::suppressed_by, DnsOutgoing::add_answer_at_time
// @bound incoming query listing two known answers (SRV, symbolic TTL and port, fixed owner/class/target); one candidate SRV answer with symbolic TTL and port
// @oracle added <=> not suppressed by either listed answer (per-answer predicate decided by the c10_suppressed_* harnesses); known_answer_count counts exactly the suppressed ones
// @stubs clock(overlay)
// @covers added, suppressed_by_first, suppressed_by_second
#[kani::proof]
#[kani::unwind(10)]
fn c10_add_answer() {
    set_clock(any_time());
    let mk = || DnsSrv::new("a.local.", CLASS_IN, kani::any(), 0, 0, kani::any(), "b.local.".to_string());
    let mine = mk();
    let mut msg = mk_incoming(Vec::new(), 0, 0);
    let k1 = mk();
    let k2 = mk();
    let s1 = mine.suppressed_by_answer(&k1);
    let s2 = mine.suppressed_by_answer(&k2);
    msg.answers.push(k1.boxed());
    msg.answers.push(k2.boxed());
    let mut out = DnsOutgoing::new(FLAGS_QR_RESPONSE | FLAGS_AA);
    let added = out.add_answer(&msg, mine);
    assert!(added == !(s1 || s2));
    assert!(out.answers_count() == if added { 1 } else { 0 });
    assert!(out.known_answer_count() == if added { 0 } else { 1 });
    kani::cover!(added, "added");
    kani::cover!(s1, "suppressed_by_first");
    kani::cover!(!s1 && s2, "suppressed_by_second");
    core::mem::forget(out);
    core::mem::forget(msg);
}

// ---------------------------------------------------------------------------
// C08 - simultaneous-probe comparison: both sides reach opposite verdicts
// ---------------------------------------------------------------------------

fn check_antisym(a: &dyn DnsRecordExt, b: &dyn DnsRecordExt, rdata_same: bool) {
    let ab = a.compare(b);
    let ba = b.compare(a);
    assert!(ab == ba.reverse(), "compare is not antisymmetric");
    let all_same = a.get_class() == b.get_class() && a.get_type() == b.get_type() && rdata_same;
    assert!((ab == cmp::Ordering::Equal) == all_same, "Equal must mean same class, type and rdata");
    if a.get_class() != b.get_class() {
        assert!(ab == a.get_class().cmp(&b.get_class()), "class decides first");
    } else if a.get_type() != b.get_type() {
        assert!(ab == (a.get_type() as u16).cmp(&(b.get_type() as u16)), "then the type number");
    }
    kani::cover!(ab == cmp::Ordering::Less, "less");
    kani::cover!(ab == cmp::Ordering::Equal, "equal");
    kani::cover!(ab == cmp::Ordering::Greater, "greater");
}

// @harness c08_compare_srv
// @property C08
// @tier quick
// @functions DnsRecordExt::compare, DnsSrv::compare_rdata
// @bound all classes, priorities, weights, ports (u16 each, both sides); targets from a 2-name list
// @oracle compare(a,b) == compare(b,a).reverse(); Equal <=> class, type, rdata equal; class then type decide first
// @stubs clock(overlay)
// @covers less, equal, greater
#[kani::proof]
#[kani::unwind(10)]
fn c08_compare_srv() {
    set_clock(any_time());
    let (ha, hb) = (any_name_idx(), any_name_idx());
    let a = DnsSrv::new("a.local.", kani::any(), 120, kani::any(), kani::any(), kani::any(), NAMES[ha].to_string());
    let b = DnsSrv::new("a.local.", kani::any(), 120, kani::any(), kani::any(), kani::any(), NAMES[hb].to_string());
    let same = a.priority == b.priority && a.weight == b.weight && a.port == b.port && ha == hb;
    // byte-wise rdata order: priority, weight, port big-endian, then target
    if a.get_class() == b.get_class() && a.priority != b.priority {
        assert!(a.compare(&b) == a.priority.cmp(&b.priority));
    }
    check_antisym(&a, &b, same);
    core::mem::forget(a);
    core::mem::forget(b);
}

// @harness c08_compare_addr
// @property C08
// @tier quick
// @functions DnsRecordExt::compare, DnsAddress::compare_rdata
// @bound all classes; A and AAAA with every address on both sides
// @oracle antisymmetry; Equal <=> class, type, address equal; class then type decide first
// @stubs clock(overlay)
// @unwind 18 (memcmp over 16 address bytes)
// @covers less, equal, greater
#[kani::proof]
#[kani::unwind(18)]
fn c08_compare_addr() {
    set_clock(any_time());
    let (va, vb): (bool, bool) = (kani::any(), kani::any());
    let (ipa, ipb) = (any_ip(va), any_ip(vb));
    let a = DnsAddress::new("a.local.", ip_address_rr_type(&ipa), kani::any(), 120, ipa, InterfaceId::default());
    let b = DnsAddress::new("a.local.", ip_address_rr_type(&ipb), kani::any(), 120, ipb, InterfaceId::default());
    check_antisym(&a, &b, ipa == ipb);
    core::mem::forget(a);
    core::mem::forget(b);
}

// @harness c08_compare_txt
// @property C08
// @tier quick
// @functions DnsRecordExt::compare, DnsTxt::compare_rdata
// @bound all classes; TXT rdata of 0..=2 symbolic bytes on each side
// @oracle antisymmetry; Equal <=> class and rdata bytes equal
// @outside rdata longer than 2 bytes
// @stubs clock(overlay)
// @covers less, equal, greater
#[kani::proof]
#[kani::unwind(10)]
fn c08_compare_txt() {
    set_clock(any_time());
    let (ta, tb) = (any_small_vec(), any_small_vec());
    let same = vec_eq(&ta, &tb);
    let a = DnsTxt::new("a.local.", kani::any(), 4500, ta);
    let b = DnsTxt::new("a.local.", kani::any(), 4500, tb);
    check_antisym(&a, &b, same);
    core::mem::forget(a);
    core::mem::forget(b);
}

// @harness c08_compare_cross
// @property C08
// @tier quick
// @functions DnsRecordExt::compare, DnsSrv::compare_rdata, DnsTxt::compare_rdata, DnsAddress::compare_rdata, DnsPointer::compare_rdata
// @bound every ordered pair of record kinds among {SRV, TXT, PTR, A, AAAA}; all classes; symbolic rdata
// @oracle antisymmetry also across kinds; class, then type number decide
// @stubs clock(overlay)
// @covers less, greater
#[kani::proof]
#[kani::unwind(10)]
fn c08_compare_cross() {
    set_clock(any_time());
    let mk = |k: u8| -> DnsRecordBox {
        match k {
            0 => DnsSrv::new("a.local.", kani::any(), 120, kani::any(), kani::any(), kani::any(), "b.local.".to_string()).boxed(),
            1 => DnsTxt::new("a.local.", kani::any(), 4500, any_small_vec()).boxed(),
            2 => DnsPointer::new("a.local.", RRType::PTR, kani::any(), 4500, "b.local.".to_string()).boxed(),
            3 => DnsAddress::new("a.local.", RRType::A, kani::any(), 120, any_ip(false), InterfaceId::default()).boxed(),
            _ => DnsAddress::new("a.local.", RRType::AAAA, kani::any(), 120, any_ip(true), InterfaceId::default()).boxed(),
        }
    };
    let (ka, kb): (u8, u8) = (kani::any(), kani::any());
    kani::assume(ka < 5 && kb < 5 && ka != kb);
    let a = mk(ka);
    let b = mk(kb);
    let ab = a.compare(b.as_ref());
    let ba = b.compare(a.as_ref());
    assert!(ab == ba.reverse(), "compare is not antisymmetric across kinds");
    assert!(ab != cmp::Ordering::Equal, "records of different type can never tie");
    if a.get_class() != b.get_class() {
        assert!(ab == a.get_class().cmp(&b.get_class()));
    } else {
        assert!(ab == (a.get_type() as u16).cmp(&(b.get_type() as u16)));
    }
    kani::cover!(ab == cmp::Ordering::Less, "less");
    kani::cover!(ab == cmp::Ordering::Greater, "greater");
    core::mem::forget(a);
    core::mem::forget(b);
}

// ---------------------------------------------------------------------------
// C01 / C11 - one resource record through the public decoder entry point
// ---------------------------------------------------------------------------

/// A whole datagram: header (ANCOUNT = 1, symbolic flags) followed by `body`.
fn rr_datagram(flags: u16, body: &[u8]) -> Vec<u8> {
    let mut d = Vec::with_capacity(12 + body.len());
    d.extend_from_slice(&[0, 0, (flags >> 8) as u8, flags as u8, 0, 0, 0, 1, 0, 0, 0, 0]);
    d.extend_from_slice(body);
    d
}

/// Decodes header+body with the owner name forced to the root (1 byte) and TYPE forced to `ty`
/// (written as *concrete* bytes so that symbolic execution does not fork on them).
/// Checks the type-independent part of C01 and returns the message if decoding succeeded.
fn decode_one_rr(body: &mut [u8], ty: u16, flags: u16, err_possible: bool) -> Option<(DnsIncoming, u16, u32, usize, bool)> {
    let m = body.len();
    body[0] = 0;
    body[1] = (ty >> 8) as u8;
    body[2] = ty as u8;
    let class = vs::be16(body, 3);
    let ttl_wire = vs::be32(body, 5);
    let rdlen = vs::be16(body, 9) as usize;
    set_clock(any_time());
    crate::verif_support::set_step_budget(m as u32 + 4);
    let r = DnsIncoming::new(rr_datagram(flags, body), InterfaceId::default());
    match r {
        Ok(inc) => {
            let is_resp = flags & 0x8000 != 0;
            assert!(inc.questions.is_empty() && inc.authorities.is_empty() && inc.additional.is_empty());
            assert!(inc.answers.len() <= 1, "more records than the header announced");
            assert!(inc.offset == 12 + 11 + rdlen, "cursor is not at the end of RDATA");
            assert!(inc.offset <= 12 + m, "cursor left the datagram");
            if let Some(rec) = inc.answers.first() {
                let r = rec.get_record();
                // C11: TTL 0 in a response means one second
                let want = if ttl_wire == 0 && is_resp { 1 } else { ttl_wire };
                assert!(r.ttl == want, "TTL not taken from the wire / 0 -> 1 rule");
                assert!(r.entry.class == class & 0x7FFF && r.entry.cache_flush == (class & 0x8000 != 0));
                assert!(r.entry.ty as u16 == ty);
                assert!(r.entry.name.is_empty(), "owner of a root-named record must be empty");
            }
            Some((inc, class, ttl_wire, rdlen, is_resp))
        }
        Err(e) => {
            if err_possible {
                kani::cover!(true, "err");
            }
            core::mem::forget(e);
            None
        }
    }
}

macro_rules! c01_rr_a {
    ($name:ident, $flags:expr) => {
        #[kani::proof]
        #[kani::unwind(2)]
        #[kani::stub(alloc::fmt::format, crate::verif_support::fmt_format)]
        #[kani::stub(core::str::from_utf8, crate::verif_support::utf8_model)]
        fn $name() {
            let mut body: [u8; 17] = kani::any();
            if let Some((inc, _c, ttl_wire, rdlen, is_resp)) = decode_one_rr(&mut body, 1, $flags, true) {
                assert!(inc.answers.len() == 1);
                assert!(rdlen == 4, "A record accepted with RDLENGTH != 4");
                let a = inc.answers[0].any().downcast_ref::<DnsAddress>().unwrap();
                match a.address {
                    IpAddr::V4(v4) => assert!(u32::from(v4) == vs::be32(&body, 11), "address not from RDATA"),
                    _ => assert!(false, "A decoded to a non-IPv4 address"),
                }
                kani::cover!(true, "ok_record");
                kani::cover!(ttl_wire == 0, "ttl0");
                kani::cover!(ttl_wire == u32::MAX, "ttl_max");
                let _ = is_resp;
                core::mem::forget(inc);
            }
        }
    };
}

// @harness c01_rr_a_resp
// @property C01 C11 C15 C05
// @tier thorough
// @functions DnsIncoming::new, read_header, read_questions, read_rr_records, read_name, read_ipv4, DnsAddress::new, DnsRecord::new
// @bound datagram = 12-byte header (flags 0x8400 = response, ANCOUNT 1) + 17 bytes; owner = root name, TYPE = A (concrete); CLASS, TTL, RDLENGTH, RDATA and 2 trailing bytes symbolic
// @oracle never panics; Ok => exactly one record, cursor == 23 + RDLENGTH <= len, address == the 4 RDATA bytes, RDLENGTH == 4, TTL/class/flush from their RFC 1035 positions, TTL 0 is stored as 1 (goodbye)
// @outside other owner names (c01_read_name_*), more than one record, other sections, other header flag bits
// @stubs fmt_format, utf8_model, clock(overlay)
// @covers ok_record, ttl0, ttl_max, err
c01_rr_a!(c01_rr_a_resp, 0x8400);

// @harness c01_rr_a_query
// @property C01 C11 C15
// @tier thorough
// @functions DnsIncoming::new, read_rr_records, read_ipv4, DnsAddress::new
// @bound as c01_rr_a_resp with header flags 0x0000 (query: known-answer section)
// @oracle as c01_rr_a_resp, but TTL 0 stays 0 in a query
// @stubs fmt_format, utf8_model, clock(overlay)
// @covers ok_record, ttl0, ttl_max, err
c01_rr_a!(c01_rr_a_query, 0x0000);

// @harness c01_rr_aaaa
// @property C01 C15
// @tier thorough
// @functions DnsIncoming::new, read_rr_records, read_ipv6, DnsAddress::new
// @bound header (response, ANCOUNT 1) + 28 bytes; owner = root, TYPE = AAAA (concrete); CLASS, TTL, RDLENGTH, 16 RDATA bytes and 1 trailing byte symbolic
// @oracle never panics; Ok => one record, RDLENGTH == 16, address == the 16 RDATA bytes
// @unwind 2 (no data-dependent loop on this path; the only loops are `for _ in 0..1` and drop loops over <= 1 element)
// @stubs fmt_format, utf8_model, clock(overlay)
// @covers ok_record, err
#[kani::proof]
#[kani::unwind(2)]
#[kani::stub(alloc::fmt::format, crate::verif_support::fmt_format)]
#[kani::stub(core::str::from_utf8, crate::verif_support::utf8_model)]
fn c01_rr_aaaa() {
    let mut body: [u8; 28] = kani::any();
    if let Some((inc, _c, _t, rdlen, _)) = decode_one_rr(&mut body, 28, 0x8400, true) {
        assert!(inc.answers.len() == 1);
        assert!(rdlen == 16, "AAAA record accepted with RDLENGTH != 16");
        let a = inc.answers[0].any().downcast_ref::<DnsAddress>().unwrap();
        let o = [
            body[11], body[12], body[13], body[14], body[15], body[16], body[17], body[18], body[19], body[20], body[21],
            body[22], body[23], body[24], body[25], body[26],
        ];
        match a.address {
            IpAddr::V6(v6) => assert!(u128::from(v6) == u128::from_be_bytes(o)),
            _ => assert!(false, "AAAA decoded to a non-IPv6 address"),
        }
        kani::cover!(true, "ok_record");
        core::mem::forget(inc);
    }
}

// @harness c01_rr_txt
// @property C01 C15
// @tier thorough
// @functions DnsIncoming::new, read_rr_records, read_vec, DnsTxt::new
// @bound header + 16 bytes; owner = root, TYPE = TXT (concrete); RDLENGTH and up to 5 RDATA bytes symbolic
// @oracle never panics; Ok => one record whose text is exactly the RDLENGTH bytes after the RR header
// @stubs fmt_format, utf8_model, clock(overlay)
// @covers ok_empty, ok_full, err
#[kani::proof]
#[kani::unwind(7)]
#[kani::stub(alloc::fmt::format, crate::verif_support::fmt_format)]
#[kani::stub(core::str::from_utf8, crate::verif_support::utf8_model)]
fn c01_rr_txt() {
    let mut body: [u8; 16] = kani::any();
    if let Some((inc, _c, _t, rdlen, _)) = decode_one_rr(&mut body, 16, 0x8400, true) {
        assert!(inc.answers.len() == 1);
        let t = inc.answers[0].any().downcast_ref::<DnsTxt>().unwrap();
        assert!(t.text.len() == rdlen);
        let mut i = 0;
        while i < 5 {
            if i < rdlen {
                assert!(t.text[i] == body[11 + i], "TXT byte not from its datagram position");
            }
            i += 1;
        }
        kani::cover!(rdlen == 0, "ok_empty");
        kani::cover!(rdlen == 5, "ok_full");
        core::mem::forget(inc);
    }
}

// @harness c01_rr_srv
// @property X01
// @tier thorough
// @functions DnsIncoming::new, read_rr_records, read_u16, read_name, DnsSrv::new
// @bound header + 19 bytes; owner = root, TYPE = SRV (concrete); CLASS/TTL/RDLENGTH, priority/weight/port and a 2-byte target (root or pointer) symbolic
// @oracle never panics; Ok => one record, priority/weight/port from RDATA bytes 0..6, cursor == 23 + RDLENGTH
// @stubs fmt_format, utf8_model, clock(overlay)
// @covers ok_record, ok_target_pointer, err
#[kani::proof]
#[kani::unwind(4)]
#[kani::stub(alloc::fmt::format, crate::verif_support::fmt_format)]
#[kani::stub(core::str::from_utf8, crate::verif_support::utf8_model)]
fn c01_rr_srv() {
    let mut body: [u8; 19] = kani::any();
    if let Some((inc, _c, _t, rdlen, _)) = decode_one_rr(&mut body, 33, 0x8400, true) {
        assert!(inc.answers.len() == 1);
        assert!(rdlen >= 7, "SRV shorter than 6 bytes + a name");
        let s = inc.answers[0].any().downcast_ref::<DnsSrv>().unwrap();
        assert!(s.priority == vs::be16(&body, 11) && s.weight == vs::be16(&body, 13) && s.port == vs::be16(&body, 15));
        kani::cover!(true, "ok_record");
        kani::cover!(body[17] >= 0xC0, "ok_target_pointer");
        core::mem::forget(inc);
    }
}

// @harness c01_rr_ptr
// @property X01
// @tier thorough
// @functions DnsIncoming::new, read_rr_records, read_name, DnsPointer::new
// @bound header + 13 bytes; owner = root, TYPE = PTR (concrete); CLASS/TTL/RDLENGTH and a 2-byte target (root, pointer, or 1-byte label start) symbolic
// @oracle never panics; Ok => one record, cursor == 23 + RDLENGTH (the target name fills RDATA exactly)
// @stubs fmt_format, utf8_model, clock(overlay)
// @covers ok_record, ok_target_pointer, err
#[kani::proof]
#[kani::unwind(4)]
#[kani::stub(alloc::fmt::format, crate::verif_support::fmt_format)]
#[kani::stub(core::str::from_utf8, crate::verif_support::utf8_model)]
fn c01_rr_ptr() {
    let mut body: [u8; 13] = kani::any();
    if let Some((inc, _c, _t, rdlen, _)) = decode_one_rr(&mut body, 12, 0x8400, true) {
        assert!(inc.answers.len() == 1);
        assert!(rdlen >= 1);
        kani::cover!(true, "ok_record");
        kani::cover!(body[11] >= 0xC0, "ok_target_pointer");
        core::mem::forget(inc);
    }
}

// @harness c01_rr_hinfo
// @property X01
// @tier thorough
// @functions DnsIncoming::new, read_rr_records, read_char_string, read_string, DnsHostInfo::new
// @bound header + 15 bytes; owner = root, TYPE = HINFO (concrete); RDLENGTH and up to 4 RDATA bytes symbolic
// @oracle never panics; Ok => one record, cursor == 23 + RDLENGTH
// @stubs fmt_format, utf8_model, clock(overlay)
// @covers ok_record, err
#[kani::proof]
#[kani::unwind(6)]
#[kani::stub(alloc::fmt::format, crate::verif_support::fmt_format)]
#[kani::stub(core::str::from_utf8, crate::verif_support::utf8_model)]
fn c01_rr_hinfo() {
    let mut body: [u8; 15] = kani::any();
    if let Some((inc, _c, _t, rdlen, _)) = decode_one_rr(&mut body, 13, 0x8400, true) {
        assert!(inc.answers.len() == 1);
        assert!(rdlen >= 2, "HINFO needs two length bytes");
        kani::cover!(true, "ok_record");
        core::mem::forget(inc);
    }
}

macro_rules! c01_rr_at_end {
    ($name:ident, $ty:expr) => {
        #[kani::proof]
        #[kani::unwind(3)]
        #[kani::stub(alloc::fmt::format, crate::verif_support::fmt_format)]
        #[kani::stub(core::str::from_utf8, crate::verif_support::utf8_model)]
        fn $name() {
            let mut body: [u8; 11] = kani::any();
            if let Some((inc, _c, _t, rdlen, _)) = decode_one_rr(&mut body, $ty, 0x8400, true) {
                // only a TXT with RDLENGTH 0 can be decoded from an RR header alone
                assert!($ty == 16 && rdlen == 0);
                core::mem::forget(inc);
            }
        }
    };
}

// @harness c01_rr_end_hinfo
// @property C01 C15
// @tier quick
// @functions DnsIncoming::new, read_rr_records, read_char_string
// @bound header + exactly 11 bytes: an HINFO RR header is the end of the datagram (CLASS, TTL, RDLENGTH symbolic, incl. RDLENGTH 0)
// @oracle never panics: an RR whose RDATA is missing is an error, not an index panic
// @stubs fmt_format, utf8_model, clock(overlay)
// @covers err
c01_rr_at_end!(c01_rr_end_hinfo, 13);

// @harness c01_rr_end_srv
// @property C01 C15
// @tier quick
// @functions DnsIncoming::new, read_rr_records, read_u16
// @bound header + exactly 11 bytes: an SRV RR header is the end of the datagram
// @oracle never panics
// @stubs fmt_format, utf8_model, clock(overlay)
// @covers err
c01_rr_at_end!(c01_rr_end_srv, 33);

// @harness c01_rr_end_nsec
// @property C01 C15
// @tier quick
// @functions DnsIncoming::new, read_rr_records, read_name, read_type_bitmap
// @bound header + exactly 11 bytes: an NSEC RR header is the end of the datagram
// @oracle never panics
// @stubs fmt_format, utf8_model, clock(overlay)
// @covers err
c01_rr_at_end!(c01_rr_end_nsec, 47);

// @harness c01_rr_end_a
// @property C01 C15
// @tier thorough
// @functions DnsIncoming::new, read_rr_records, read_ipv4
// @bound header + exactly 11 bytes: an A RR header is the end of the datagram
// @oracle never panics
// @stubs fmt_format, utf8_model, clock(overlay)
// @covers err
c01_rr_at_end!(c01_rr_end_a, 1);

// @harness c01_rr_nsec
// @property X01
// @tier thorough
// @functions DnsIncoming::new, read_rr_records, read_name, read_type_bitmap, DnsNSec::new
// @bound header + 16 bytes; owner = root, TYPE = NSEC (concrete); next-domain name + bitmap block in up to 5 RDATA bytes
// @oracle never panics; Ok => one record, bitmap length 1..=32 and inside RDATA, cursor == 23 + RDLENGTH
// @stubs fmt_format, utf8_model, clock(overlay)
// @covers ok_record, err
#[kani::proof]
#[kani::unwind(5)]
#[kani::stub(alloc::fmt::format, crate::verif_support::fmt_format)]
#[kani::stub(core::str::from_utf8, crate::verif_support::utf8_model)]
fn c01_rr_nsec() {
    let mut body: [u8; 16] = kani::any();
    if let Some((inc, _c, _t, rdlen, _)) = decode_one_rr(&mut body, 47, 0x8400, true) {
        assert!(inc.answers.len() == 1);
        let n = inc.answers[0].any().downcast_ref::<DnsNSec>().unwrap();
        assert!(n.type_bitmap.len() >= 1 && n.type_bitmap.len() <= 32 && n.type_bitmap.len() + 3 <= rdlen.max(3) + 32);
        kani::cover!(true, "ok_record");
        core::mem::forget(inc);
    }
}

macro_rules! c01_rr_unknown {
    ($name:ident, $ty:expr) => {
        #[kani::proof]
        #[kani::unwind(2)]
        #[kani::stub(alloc::fmt::format, crate::verif_support::fmt_format)]
        #[kani::stub(core::str::from_utf8, crate::verif_support::utf8_model)]
        fn $name() {
            let mut body: [u8; 15] = kani::any();
            if let Some((inc, _c, _t, _rdlen, _)) = decode_one_rr(&mut body, $ty, 0x8400, true) {
                assert!(inc.answers.is_empty(), "record of an unsupported type was stored");
                kani::cover!(true, "ok_skipped");
                core::mem::forget(inc);
            }
        }
    };
}

// @harness c01_rr_unknown_ns
// @property C01 C15
// @tier quick
// @functions DnsIncoming::new, read_rr_records
// @bound header + 15 bytes; owner = root, TYPE = 2 (NS, not supported); RDLENGTH and 4 RDATA bytes symbolic
// @oracle never panics; Ok => no record stored, cursor == 23 + RDLENGTH <= len (RDATA skipped whole)
// @stubs fmt_format, utf8_model, clock(overlay)
// @covers ok_skipped, err
c01_rr_unknown!(c01_rr_unknown_ns, 2);

// @harness c01_rr_unknown_any
// @property C01 C15
// @tier quick
// @functions DnsIncoming::new, read_rr_records
// @bound header + 15 bytes; owner = root, TYPE = 255 (ANY: a known RRType without a record form); RDLENGTH and 4 RDATA bytes symbolic
// @oracle never panics; Ok => no record stored, RDATA skipped whole
// @stubs fmt_format, utf8_model, clock(overlay)
// @covers ok_skipped, err
c01_rr_unknown!(c01_rr_unknown_any, 255);

// @harness c01_question
// @property X01
// @tier thorough
// @functions DnsIncoming::new, read_header, read_questions, read_name
// @bound 12-byte header with QDCOUNT = 2 (flags 0, other counts 0) + 10 symbolic bytes
// @oracle never panics; Ok => two questions, QTYPE/QCLASS of the first read from the 4 bytes after its name, cursor <= len
// @stubs fmt_format, utf8_model
// @covers ok_two, err
#[kani::proof]
#[kani::unwind(12)]
#[kani::stub(alloc::fmt::format, crate::verif_support::fmt_format)]
#[kani::stub(core::str::from_utf8, crate::verif_support::utf8_model)]
fn c01_question() {
    let body: [u8; 10] = kani::any();
    let mut d = Vec::with_capacity(22);
    d.extend_from_slice(&[0, 0, 0, 0, 0, 2, 0, 0, 0, 0, 0, 0]);
    d.extend_from_slice(&body);
    crate::verif_support::set_step_budget(14);
    match DnsIncoming::new(d, InterfaceId::default()) {
        Ok(inc) => {
            assert!(inc.questions.len() == 2);
            assert!(inc.offset <= 22 && inc.offset >= 12 + 10);
            assert!(inc.answers.is_empty());
            if body[0] == 0 {
                let q = &inc.questions[0];
                assert!(q.entry.ty as u16 == vs::be16(&body, 1));
                assert!(q.entry.class == vs::be16(&body, 3) & 0x7FFF);
            }
            kani::cover!(true, "ok_two");
            core::mem::forget(inc);
        }
        Err(e) => {
            kani::cover!(true, "err");
            core::mem::forget(e);
        }
    }
}

macro_rules! c01_header_short {
    ($name:ident, $n:expr) => {
        #[kani::proof]
        #[kani::unwind(4)]
        #[kani::stub(alloc::fmt::format, crate::verif_support::fmt_format)]
        fn $name() {
            let hdr: [u8; $n] = kani::any();
            match DnsIncoming::new(hdr.to_vec(), InterfaceId::default()) {
                Ok(inc) => {
                    assert!(false, "a datagram shorter than a header decoded");
                    core::mem::forget(inc);
                }
                Err(e) => {
                    kani::cover!(true, "err_short");
                    core::mem::forget(e);
                }
            }
        }
    };
}

// @harness c01_header_short_0
// @property C01 C15
// @tier quick
// @functions DnsIncoming::new, read_header
// @bound the empty datagram
// @oracle Err, never a panic
// @stubs fmt_format
// @covers err_short
c01_header_short!(c01_header_short_0, 0);

// @harness c01_header_short_11
// @property C01 C15
// @tier quick
// @functions DnsIncoming::new, read_header
// @bound every datagram of exactly 11 symbolic bytes (one short of a header)
// @oracle Err, never a panic
// @stubs fmt_format
// @covers err_short
c01_header_short!(c01_header_short_11, 11);

// @harness c01_header_only
// @property C01 C15
// @tier quick
// @functions DnsIncoming::new, read_header
// @bound 12-byte datagrams: id and flags symbolic, all four counts zero
// @oracle Ok with id/flags from bytes 0..4 and empty sections
// @stubs fmt_format
// @covers ok_empty_message
#[kani::proof]
#[kani::unwind(4)]
#[kani::stub(alloc::fmt::format, crate::verif_support::fmt_format)]
fn c01_header_only() {
    let a: [u8; 4] = kani::any();
    let d = vec![a[0], a[1], a[2], a[3], 0, 0, 0, 0, 0, 0, 0, 0];
    match DnsIncoming::new(d, InterfaceId::default()) {
        Ok(inc) => {
            assert!(inc.id == vs::be16(&a, 0) && inc.flags == vs::be16(&a, 2));
            assert!(inc.questions.is_empty() && inc.answers.is_empty() && inc.authorities.is_empty() && inc.additional.is_empty());
            assert!(inc.offset == 12);
            kani::cover!(true, "ok_empty_message");
            core::mem::forget(inc);
        }
        Err(e) => {
            assert!(false, "a 12-byte header with zero counts must decode");
            core::mem::forget(e);
        }
    }
}

// ---------------------------------------------------------------------------
// C01 quick tier: exact-length typed record (cheap: no error path after the push) and the
// low-level readers from an arbitrary parser state
// ---------------------------------------------------------------------------

macro_rules! c01_rr_a_exact {
    ($name:ident, $flags:expr) => {
        #[kani::proof]
        #[kani::unwind(2)]
        #[kani::stub(alloc::fmt::format, crate::verif_support::fmt_format)]
        #[kani::stub(core::str::from_utf8, crate::verif_support::utf8_model)]
        fn $name() {
            let mut body: [u8; 15] = kani::any();
            body[9] = 0;
            body[10] = 4;
            let r = decode_one_rr(&mut body, 1, $flags, false);
            assert!(r.is_some(), "a well-formed A record must decode");
            if let Some((inc, _c, ttl_wire, _rdlen, _)) = r {
                assert!(inc.answers.len() == 1);
                let a = inc.answers[0].any().downcast_ref::<DnsAddress>().unwrap();
                match a.address {
                    IpAddr::V4(v4) => assert!(u32::from(v4) == vs::be32(&body, 11), "address not from RDATA"),
                    _ => assert!(false, "A decoded to a non-IPv4 address"),
                }
                // C11/C05: lifetime of the stored record follows the (adjusted) TTL
                let rec = inc.answers[0].get_record();
                assert!(rec.expires == rec.created + 1000 * rec.ttl as u64);
                kani::cover!(ttl_wire == 0, "ttl0");
                kani::cover!(ttl_wire == u32::MAX, "ttl_max");
                core::mem::forget(inc);
            }
        }
    };
}

// @harness c01_rr_a_exact_resp
// @property C01 C11 C15 C05
// @tier quick
// @functions DnsIncoming::new, read_header, read_questions, read_rr_records, read_name, read_ipv4, DnsAddress::new, DnsRecord::new
// @bound datagram = header (flags 0x8400 response, ANCOUNT 1) + root owner + TYPE A + symbolic CLASS, TTL (all u32), RDATA (all u32); RDLENGTH = 4 (concrete)
// @oracle decodes to exactly one record: address/class/flush/TTL from their RFC 1035 positions; TTL 0 is stored as 1 (goodbye = one second); expires == created + 1000*ttl
// @outside RDLENGTH mismatches and trailing bytes (thorough: c01_rr_a_resp)
// @stubs fmt_format, utf8_model, clock(overlay)
// @covers ttl0, ttl_max
c01_rr_a_exact!(c01_rr_a_exact_resp, 0x8400);

// @harness c01_rr_a_exact_query
// @property C01 C11 C15
// @tier quick
// @functions DnsIncoming::new, read_rr_records, read_ipv4, DnsAddress::new, DnsRecord::new
// @bound as c01_rr_a_exact_resp with header flags 0x0000 (query: known-answer section)
// @oracle as c01_rr_a_exact_resp, but TTL 0 stays 0 in a query
// @stubs fmt_format, utf8_model, clock(overlay)
// @covers ttl0, ttl_max
c01_rr_a_exact!(c01_rr_a_exact_query, 0x0000);

// @harness c01_unit_char_string
// @property C01 C15
// @tier quick
// @functions DnsIncoming::read_char_string, DnsIncoming::read_string
// @bound buffer of exactly 4 symbolic bytes, cursor symbolic in 0..=4 (an arbitrary parser state, incl. the cursor at the very end)
// @oracle Result, never a panic; Ok => cursor == start + 1 + length byte <= len
// @stubs fmt_format, utf8_model
// @covers ok, err
// @lift rr:13
#[kani::proof]
#[kani::unwind(7)]
#[kani::stub(alloc::fmt::format, crate::verif_support::fmt_format)]
#[kani::stub(core::str::from_utf8, crate::verif_support::utf8_model)]
fn c01_unit_char_string() {
    let bytes: [u8; 4] = kani::any();
    let off: usize = kani::any();
    kani::assume(off <= 4);
    crate::verif_support::set_step_budget(4);
    let mut inc = mk_incoming(bytes.to_vec(), off, 0);
    match inc.read_char_string() {
        Ok(s) => {
            assert!(inc.offset == off + 1 + bytes[off] as usize && inc.offset <= 4);
            assert!(s.len() == bytes[off] as usize);
            kani::cover!(true, "ok");
            core::mem::forget(s);
        }
        Err(e) => {
            kani::cover!(true, "err");
            core::mem::forget(e);
        }
    }
    core::mem::forget(inc);
}

// @harness c01_unit_u16_ipv4
// @property C01 C15
// @tier quick
// @functions DnsIncoming::read_u16, DnsIncoming::read_ipv4
// @bound buffer of exactly 5 symbolic bytes, cursor symbolic in 0..=5
// @oracle Result, never a panic; Ok => value == the big-endian bytes at the cursor, cursor advanced by 2 / 4 and <= len
// @stubs fmt_format
// @covers ok_u16, err_u16, ok_v4, err_v4
#[kani::proof]
#[kani::unwind(7)]
#[kani::stub(alloc::fmt::format, crate::verif_support::fmt_format)]
fn c01_unit_u16_ipv4() {
    let bytes: [u8; 5] = kani::any();
    let off: usize = kani::any();
    kani::assume(off <= 5);
    let mut inc = mk_incoming(bytes.to_vec(), off, 0);
    if kani::any() {
        match inc.read_u16() {
            Ok(v) => {
                assert!(off + 2 <= 5 && inc.offset == off + 2);
                assert!(v == vs::be16(&bytes, off));
                kani::cover!(true, "ok_u16");
            }
            Err(e) => {
                assert!(off + 2 > 5, "two bytes were available");
                kani::cover!(true, "err_u16");
                core::mem::forget(e);
            }
        }
    } else {
        match inc.read_ipv4() {
            Ok(v) => {
                assert!(off + 4 <= 5 && inc.offset == off + 4);
                assert!(u32::from(v) == vs::be32(&bytes, off));
                kani::cover!(true, "ok_v4");
            }
            Err(e) => {
                assert!(off + 4 > 5, "four bytes were available");
                kani::cover!(true, "err_v4");
                core::mem::forget(e);
            }
        }
    }
    core::mem::forget(inc);
}

// @harness c01_unit_vec
// @property C01 C15
// @tier quick
// @functions DnsIncoming::read_vec
// @bound buffer of exactly 4 symbolic bytes, cursor symbolic in 0..=4, requested length symbolic in 0..=6
// @oracle Result, never a panic; Ok <=> cursor + length <= len; the returned bytes are the datagram bytes at the cursor
// @stubs fmt_format
// @covers ok_empty, ok_full, err
#[kani::proof]
#[kani::unwind(8)]
#[kani::stub(alloc::fmt::format, crate::verif_support::fmt_format)]
fn c01_unit_vec() {
    let bytes: [u8; 4] = kani::any();
    let off: usize = kani::any();
    let len: usize = kani::any();
    kani::assume(off <= 4 && len <= 6);
    let mut inc = mk_incoming(bytes.to_vec(), off, 0);
    match inc.read_vec(len) {
        Ok(v) => {
            assert!(off + len <= 4 && inc.offset == off + len && v.len() == len);
            let mut i = 0;
            while i < 4 {
                if i < len {
                    assert!(v[i] == bytes[off + i]);
                }
                i += 1;
            }
            kani::cover!(len == 0, "ok_empty");
            kani::cover!(len == 4, "ok_full");
            core::mem::forget(v);
        }
        Err(e) => {
            assert!(off + len > 4);
            kani::cover!(true, "err");
            core::mem::forget(e);
        }
    }
    core::mem::forget(inc);
}

// @harness c01_unit_type_bitmap
// @property C01 C15
// @tier quick
// @functions DnsIncoming::read_type_bitmap
// @bound buffer of exactly 5 symbolic bytes, cursor symbolic in 0..=5
// @oracle Result, never a panic; Ok => block number 0, length 1..=32, bitmap bytes from the datagram, cursor == start + 2 + length <= len
// @stubs fmt_format
// @covers ok, err
#[kani::proof]
#[kani::unwind(8)]
#[kani::stub(alloc::fmt::format, crate::verif_support::fmt_format)]
fn c01_unit_type_bitmap() {
    let bytes: [u8; 5] = kani::any();
    let off: usize = kani::any();
    kani::assume(off <= 5);
    let mut inc = mk_incoming(bytes.to_vec(), off, 0);
    match inc.read_type_bitmap() {
        Ok(v) => {
            assert!(bytes[off] == 0);
            let l = bytes[off + 1] as usize;
            assert!(l >= 1 && l <= 32 && v.len() == l && inc.offset == off + 2 + l && inc.offset <= 5);
            assert!(v[0] == bytes[off + 2]);
            kani::cover!(true, "ok");
            core::mem::forget(v);
        }
        Err(e) => {
            kani::cover!(true, "err");
            core::mem::forget(e);
        }
    }
    core::mem::forget(inc);
}

// @harness c01_unit_ipv6
// @property C01 C15
// @tier quick
// @functions DnsIncoming::read_ipv6
// @bound buffer of exactly 17 symbolic bytes, cursor symbolic in 0..=17
// @oracle Result, never a panic; Ok <=> 16 bytes available; cursor advanced by 16
// @stubs fmt_format
// @covers ok, err
#[kani::proof]
#[kani::unwind(19)]
#[kani::stub(alloc::fmt::format, crate::verif_support::fmt_format)]
fn c01_unit_ipv6() {
    let bytes: [u8; 17] = kani::any();
    let off: usize = kani::any();
    kani::assume(off <= 17);
    let mut inc = mk_incoming(bytes.to_vec(), off, 0);
    match inc.read_ipv6() {
        Ok(v) => {
            assert!(off + 16 <= 17 && inc.offset == off + 16);
            assert!(v.octets()[0] == bytes[off] && v.octets()[15] == bytes[off + 15]);
            kani::cover!(true, "ok");
        }
        Err(e) => {
            assert!(off + 16 > 17);
            kani::cover!(true, "err");
            core::mem::forget(e);
        }
    }
    core::mem::forget(inc);
}

// ---------------------------------------------------------------------------
// C01 (continued): pointer graphs and the 255-byte name cap
// ---------------------------------------------------------------------------

// @harness c01_read_name_ptrs_8
// @property C01 C15
// @tier quick
// @functions DnsIncoming::read_name
// @bound buffer of 8 bytes made only of compression pointers and terminators: every even byte is 0xC0 or 0x00, every odd byte a symbolic even target 0,2,4,6; start offset any even value 0..=8: all pointer graphs over four 2-byte slots (self, forward, backward, chains, cycles)
// @unwind 12 (ghost budget N+1 = 9 hops fires first)
// @termination read_name
// @oracle Result, never panic, always terminates; on Ok the name is empty and start < cursor <= N
// @outside labels mixed with pointers (c01_read_name_4/5/8)
// @stubs fmt_format, utf8_model(+tick), u16_from_be_slice(+tick)
// @covers ok_chain, err
// @lift name:overwrite-even
#[kani::proof]
#[kani::unwind(12)]
#[kani::stub(alloc::fmt::format, crate::verif_support::fmt_format)]
#[kani::stub(core::str::from_utf8, crate::verif_support::utf8_model)]
#[kani::stub(super::u16_from_be_slice, u16_from_be_slice_ticking)]
fn c01_read_name_ptrs_8() {
    const N: usize = 8;
    // even bytes are overwritten with a symbolic choice of 0xC0 / 0x00 (cheaper for symbolic
    // execution than assumptions); lib/replay.py rebuilds the buffer from the playback values
    // (8 initial bytes, then one bool per even byte, then the offset): `@lift name:overwrite-even`
    let mut bytes: [u8; N] = kani::any();
    let mut i = 0;
    while i < N {
        bytes[i] = if kani::any() { 0xC0 } else { 0x00 };
        kani::assume(bytes[i + 1] < N as u8 && bytes[i + 1] % 2 == 0);
        i += 2;
    }
    let off: usize = kani::any();
    kani::assume(off <= N && off % 2 == 0);
    crate::verif_support::set_step_budget(N as u32 + 1);
    let mut inc = mk_incoming(bytes.to_vec(), off, 0);
    let r = inc.read_name();
    match &r {
        Ok(name) => {
            assert!(inc.offset <= N && inc.offset > off);
            assert!(name.is_empty(), "a name made of pointers and terminators has no label");
            kani::cover!(off == 6 && bytes[6] == 0xC0 && bytes[7] == 4 && bytes[4] == 0xC0 && bytes[5] == 2 && bytes[2] == 0xC0 && bytes[3] == 0, "ok_chain");
        }
        Err(_) => {
            kani::cover!(true, "err");
        }
    }
    core::mem::forget(r);
    core::mem::forget(inc);
}

// @harness c01_name_cap
// @property X01
// @tier thorough
// @functions DnsIncoming::read_name
// @bound a 262-byte buffer: 129 one-byte labels (one symbolic ASCII letter) + terminator at offset 0, and at offset 259 a pointer to offset 0 (concrete shape, symbolic letter); the name is read through the pointer and directly
// @unwind 134
// @oracle a name longer than 255 bytes is refused whether it is reached directly or through a pointer ("never a name longer than the datagram could encode"; RFC 1035 2.3.4)
// @stubs fmt_format, utf8_model
// @covers refused_via_pointer
// @timeout 2400
#[kani::proof]
#[kani::unwind(134)]
#[kani::stub(alloc::fmt::format, crate::verif_support::fmt_format)]
#[kani::stub(core::str::from_utf8, crate::verif_support::utf8_model)]
fn c01_name_cap() {
    let c: u8 = kani::any();
    kani::assume(c >= b'a' && c <= b'z');
    let mut d = Vec::with_capacity(262);
    let mut i = 0;
    while i < 129 {
        d.push(1);
        d.push(c);
        i += 1;
    }
    d.push(0);
    d.push(0xC0);
    d.push(0x00);
    crate::verif_support::set_step_budget(400);
    let via_ptr: bool = kani::any();
    let mut inc = mk_incoming(d, if via_ptr { 259 } else { 0 }, 0);
    let r = inc.read_name();
    match &r {
        Ok(name) => {
            assert!(name.len() <= 255, "a name longer than 255 bytes was produced");
        }
        Err(_) => {
            kani::cover!(via_ptr, "refused_via_pointer");
        }
    }
    core::mem::forget(r);
    core::mem::forget(inc);
}

// ---------------------------------------------------------------------------
// C06 / C10 - the PTR answer and its additionals; legacy unicast
// ---------------------------------------------------------------------------

// @harness c06_legacy_clear
// @property C06
// @tier quick
// @functions DnsOutgoing::clear_cache_flush_bits, DnsOutgoing::add_answer_at_time, DnsOutgoing::add_additional_answer, DnsOutgoing::add_authority
// @bound a response with one answer (SRV), one authority (TXT) and one additional (A), each with symbolic class (flush bit on or off), TTL, port / address
// @oracle after clear_cache_flush_bits no record in any section has the cache-flush flag; class, TTL, type and rdata are unchanged; counts unchanged
// @stubs clock(overlay)
// @covers all_had_flush
#[kani::proof]
#[kani::unwind(10)]
fn c06_legacy_clear() {
    set_clock(any_time());
    let (c1, c2, c3): (u16, u16, u16) = (kani::any(), kani::any(), kani::any());
    let (t1, t2, t3): (u32, u32, u32) = (kani::any(), kani::any(), kani::any());
    let port: u16 = kani::any();
    let ip: u32 = kani::any();
    let mut out = DnsOutgoing::new(FLAGS_QR_RESPONSE | FLAGS_AA);
    out.add_answer_at_time(DnsSrv::new("a.local.", c1, t1, 0, 0, port, "b.local.".to_string()), 0);
    out.add_authority(DnsTxt::new("a.local.", c2, t2, vec![0]).boxed());
    out.add_additional_answer(DnsAddress::new("b.local.", RRType::A, c3, t3, IpAddr::V4(Ipv4Addr::from(ip)), InterfaceId::default()));
    out.clear_cache_flush_bits();
    assert!(out.answers.len() == 1 && out.authorities.len() == 1 && out.additionals.len() == 1);
    let a = &out.answers[0].0;
    assert!(!a.get_cache_flush() && a.get_class() == c1 & 0x7FFF && a.get_record().ttl == t1);
    assert!(a.any().downcast_ref::<DnsSrv>().unwrap().port == port);
    let b = &out.authorities[0];
    assert!(!b.get_cache_flush() && b.get_class() == c2 & 0x7FFF && b.get_record().ttl == t2);
    let c = &out.additionals[0];
    assert!(!c.get_cache_flush() && c.get_class() == c3 & 0x7FFF && c.get_record().ttl == t3);
    kani::cover!(c1 & 0x8000 != 0 && c2 & 0x8000 != 0 && c3 & 0x8000 != 0, "all_had_flush");
    core::mem::forget(out);
}

// ---------------------------------------------------------------------------
// C02 - instance-name escaping survives the encoder's label splitter
// ---------------------------------------------------------------------------

// @harness c02_escape_roundtrip
// @property X02
// @tier quick
// @functions DnsOutPacket::parse_escaped_name, service_info::escape_instance_name
// @bound instance names of exactly 2 symbolic ASCII bytes (so '.', '\\' occur anywhere, incl. a trailing backslash), followed by the fixed suffix ".t"
// @oracle parse_escaped_name(escape_instance_name(s) + ".t") == [s, "t"]: the instance survives as ONE label with its bytes unchanged, and the label after it is intact (a name that was never added must not appear)
// @outside instance names longer than 2 bytes, non-ASCII text, empty instance names
// @stubs none
// @covers has_dot, has_backslash, trailing_backslash
#[kani::proof]
#[kani::unwind(8)]
fn c02_escape_roundtrip() {
    let b: [u8; 2] = kani::any();
    kani::assume(b[0] < 0x80 && b[1] < 0x80);
    let s = unsafe { String::from_utf8_unchecked(vec![b[0], b[1]]) };
    let mut full = crate::service_info::verif_kani::escape_for_harness(&s);
    full.push_str(".t");
    let labels = DnsOutPacket::parse_escaped_name(&full);
    assert!(labels.len() == 2, "the escaped instance name did not stay one label");
    let l0 = labels[0].as_bytes();
    assert!(l0.len() == 2 && l0[0] == b[0] && l0[1] == b[1], "instance label bytes changed");
    let l1 = labels[1].as_bytes();
    assert!(l1.len() == 1 && l1[0] == b't', "the following label was damaged");
    kani::cover!(b[1] == b'.', "has_dot");
    kani::cover!(b[0] == b'\\', "has_backslash");
    kani::cover!(b[1] == b'\\', "trailing_backslash");
    core::mem::forget(labels);
    core::mem::forget(full);
    core::mem::forget(s);
}

// @harness c08_compare_ptr
// @property C08
// @tier quick
// @functions DnsRecordExt::compare, DnsPointer::compare_rdata
// @bound all classes; PTR or CNAME on each side; alias from a 2-name list
// @oracle antisymmetry; Equal <=> class, type and alias equal; class then type decide first
// @stubs clock(overlay)
// @covers less, equal, greater
#[kani::proof]
#[kani::unwind(10)]
fn c08_compare_ptr() {
    set_clock(any_time());
    let (aa, ab) = (any_name_idx(), any_name_idx());
    let ta = if kani::any() { RRType::PTR } else { RRType::CNAME };
    let tb = if kani::any() { RRType::PTR } else { RRType::CNAME };
    let a = DnsPointer::new("a.local.", ta, kani::any(), 4500, NAMES[aa].to_string());
    let b = DnsPointer::new("a.local.", tb, kani::any(), 4500, NAMES[ab].to_string());
    check_antisym(&a, &b, aa == ab);
    core::mem::forget(a);
    core::mem::forget(b);
}
