// Engine A harnesses for src/dns_parser.rs.  Compiled as a child module of
// `dns_parser` in the scratch overlay (cfg(kani) only), so `super::*` gives
// access to private items.  Each harness is preceded by a `// @key value`
// block that bin/check copies into the evidence file.
#![allow(unused_imports, dead_code, clippy::all)]

use super::*;
use crate::verif_support as vs;
use crate::verif_support::{any_time, set_clock};

// ---------------------------------------------------------------------------
// helpers
// ---------------------------------------------------------------------------

const NAMES: [&str; 2] = ["a.local.", "b.local."];

fn any_name_idx() -> usize {
    let i: usize = kani::any();
    kani::assume(i < NAMES.len());
    i
}

fn any_record(name: &str, ty: RRType) -> DnsRecord {
    // A record in the state `DnsRecord::new` leaves it in, with symbolic class/ttl/clock.
    let class: u16 = kani::any();
    let ttl: u32 = kani::any();
    set_clock(any_time());
    DnsRecord::new(name, ty, class, ttl)
}

fn entry_same(a: &DnsRecord, b: &DnsRecord, ia: usize, ib: usize) -> bool {
    // owner, type, class (flush flag excluded: RFC 6762 10.2 - it is not part of the class)
    ia == ib && a.entry.ty == b.entry.ty && a.entry.class == b.entry.class
}

fn check_suppression(mine: &dyn DnsRecordExt, other: &dyn DnsRecordExt, same: bool) {
    let m = mine.get_record().ttl as u64;
    let o = other.get_record().ttl as u64;
    let sup = mine.suppressed_by_answer(other);
    if 2 * o < m {
        assert!(!sup, "suppressed although known-answer TTL is below half");
    }
    if !same {
        assert!(!sup, "suppressed by a different record");
    }
    if same && 2 * o > m {
        assert!(sup, "same record above half TTL was not suppressed");
    }
    kani::cover!(sup, "suppressed");
    kani::cover!(!sup && same, "same_but_not_suppressed");
    kani::cover!(!sup && !same, "different");
}

// ---------------------------------------------------------------------------
// C10 - known-answer suppression, responder side
// ---------------------------------------------------------------------------

// @harness c10_suppressed_srv
// @property C10
// @tier quick
// @functions DnsRecordExt::suppressed_by_answer, DnsSrv::matches, DnsEntry::eq
// @bound all u32 x u32 TTLs, all u16 class/priority/weight/port on both sides; owner names and SRV targets drawn from a 2-element list of concrete names
// @oracle same := owner, type, class(without flush bit), priority, weight, port, target equal
// @outside symbolic name text; records of different Rust types (covered by c10_suppressed_cross)
// @stubs clock(overlay)
// @covers suppressed, same_but_not_suppressed, different
#[kani::proof]
#[kani::unwind(10)]
fn c10_suppressed_srv() {
    let (ia, ib, ha, hb) = (any_name_idx(), any_name_idx(), any_name_idx(), any_name_idx());
    let mut a = DnsSrv::new(NAMES[ia], kani::any(), kani::any(), kani::any(), kani::any(), kani::any(), NAMES[ha].to_string());
    let b = DnsSrv::new(NAMES[ib], kani::any(), kani::any(), kani::any(), kani::any(), kani::any(), NAMES[hb].to_string());
    let _ = &mut a;
    let same = entry_same(&a.record, &b.record, ia, ib)
        && a.priority == b.priority
        && a.weight == b.weight
        && a.port == b.port
        && ha == hb;
    check_suppression(&a, &b, same);
    core::mem::forget(a);
    core::mem::forget(b);
}

// ---------------------------------------------------------------------------
// C11 - lifetime arithmetic, single-call Kani twins of the Engine B summaries
// ---------------------------------------------------------------------------

// @harness c11_twin_new_lifetime
// @property C11 C05
// @tier quick
// @functions DnsRecord::new, get_expiration_time, DnsRecord::is_expired, DnsRecord::expires_soon, DnsRecord::refresh_due
// @bound every ttl: u32, every clock reading < 2^62, every observation time now < 2^62
// @oracle expires == created + 1000*ttl, refresh == created + 800*ttl (u64, no wrap)
// @stubs clock(overlay)
// @covers expired, live, refresh_due_not_expired
#[kani::proof]
#[kani::unwind(10)]
fn c11_twin_new_lifetime() {
    let ttl: u32 = kani::any();
    let t = any_time();
    set_clock(t);
    let r = DnsRecord::new("a.local.", RRType::A, CLASS_IN, ttl);
    assert!(r.created == t);
    assert!(r.expires == t + 1000 * ttl as u64);
    assert!(r.refresh == t + 800 * ttl as u64);
    let now = any_time();
    assert!(r.is_expired(now) == (now >= t + 1000 * ttl as u64));
    assert!(r.expires_soon(now) == (now + 1000 >= t + 1000 * ttl as u64));
    assert!(r.refresh_due(now) == (now >= t + 800 * ttl as u64));
    kani::cover!(r.is_expired(now), "expired");
    kani::cover!(!r.is_expired(now), "live");
    kani::cover!(r.refresh_due(now) && !r.is_expired(now), "refresh_due_not_expired");
    core::mem::forget(r);
}
