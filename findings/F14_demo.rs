// appended to src/service_daemon.rs (in-crate test module); fails on a4a0806, passes with the fix

/// F14 demonstration: after a conflict rename the goodbye of a service and a direct SRV
/// answer must use the names the registry resolved, not the names as registered.
#[cfg(test)]
mod f14_demo {
    use super::*;

    fn renamed_setup() -> Option<(Zeroconf, ServiceInfo, u32, String, String)> {
        let signal_sock = UdpSocket::bind(SocketAddrV4::new(LOOPBACK_V4, 0)).unwrap();
        let signal_addr = signal_sock.local_addr().unwrap();
        signal_sock.set_nonblocking(true).unwrap();
        let (cmd_tx, _cmd_rx) = bounded(100);
        let poller = Poll::new().unwrap();
        let mio_sock = MioUdpSocket::from_std(signal_sock);
        let mut zc = Zeroconf::new(mio_sock, poller, 53714, cmd_tx, signal_addr);
        // a real interface with an IPv4 address
        let (if_index, ip) = zc.my_intfs.iter().find_map(|(idx, intf)| {
            intf.addrs.iter().find_map(|a| match a.ip() {
                IpAddr::V4(v4) if !v4.is_loopback() => Some((*idx, IpAddr::V4(v4))),
                _ => None,
            })
        })?;
        zc.ipv4_sock.as_ref()?;
        let info = ServiceInfo::new("_f14demo._udp.local.", "inst", "f14-host.local.", ip, 5214, None).unwrap();
        let (new_full, new_host) = ("inst (2)._f14demo._udp.local.".to_string(), "f14-host-2.local.".to_string());
        let reg = zc.dns_registry_map.entry(if_index).or_insert_with(DnsRegistry::new);
        reg.name_changes.insert(info.get_fullname().to_string(), new_full.clone());
        reg.name_changes.insert(info.get_hostname().to_string(), new_host.clone());
        Some((zc, info, if_index, new_full, new_host))
    }

    #[test]
    fn f14_demo_goodbye_uses_renamed_names() {
        let Some((zc, info, if_index, new_full, new_host)) = renamed_setup() else {
            println!("no IPv4 interface: skipped");
            return;
        };
        let intf = zc.my_intfs.get(&if_index).unwrap();
        let sock = zc.ipv4_sock.as_ref().unwrap();
        let packet = zc.unregister_service(&info, intf, &sock.pktinfo);
        assert!(!packet.is_empty(), "goodbye packet expected");
        let msg = DnsIncoming::new(packet, intf.into()).unwrap();
        for rec in msg.answers() {
            if let Some(srv) = rec.any().downcast_ref::<DnsSrv>() {
                assert_eq!(rec.get_name(), new_full, "goodbye SRV owner");
                assert_eq!(srv.host(), new_host, "goodbye SRV target");
            } else if let Some(ptr) = rec.any().downcast_ref::<DnsPointer>() {
                assert_eq!(ptr.alias(), new_full, "goodbye PTR target");
            } else if rec.get_type() == RRType::TXT {
                assert_eq!(rec.get_name(), new_full, "goodbye TXT owner");
            } else if rec.get_type() == RRType::A {
                assert_eq!(rec.get_name(), new_host, "goodbye address owner");
            }
        }
    }

    #[test]
    fn f14_demo_direct_srv_answer_uses_renamed_host() {
        let Some((mut zc, mut info, if_index, new_full, new_host)) = renamed_setup() else {
            println!("no IPv4 interface: skipped");
            return;
        };
        info.set_status(if_index, ServiceStatus::Announced);
        let key = info.get_fullname().to_lowercase();
        zc.my_services.insert(key, info);
        // a one-shot (legacy unicast) SRV question for the renamed instance, answered by unicast to our socket
        let querier = UdpSocket::bind("0.0.0.0:0").unwrap();
        querier.set_read_timeout(Some(Duration::from_millis(2000))).unwrap();
        let ip = match zc.my_intfs.get(&if_index).unwrap().addrs.iter().find_map(|a| match a.ip() { IpAddr::V4(v) => Some(v), _ => None }) { Some(v) => v, None => return };
        let qaddr = SocketAddr::new(IpAddr::V4(ip), querier.local_addr().unwrap().port());
        let mut q = DnsOutgoing::new(FLAGS_QR_QUERY);
        q.add_question(&new_full.to_lowercase(), RRType::SRV);
        let data = q.to_data_on_wire().pop().unwrap();
        let intf_id: InterfaceId = zc.my_intfs.get(&if_index).unwrap().into();
        let msg = DnsIncoming::new(data, intf_id.clone()).unwrap();
        zc.handle_query(msg, if_index, qaddr);
        let mut buf = [0u8; 9000];
        let (len, _) = querier.recv_from(&mut buf).expect("unicast SRV response");
        let resp = DnsIncoming::new(buf[..len].to_vec(), intf_id).unwrap();
        let srv = resp.answers().iter().find_map(|r| r.any().downcast_ref::<DnsSrv>()).expect("SRV answer");
        assert_eq!(srv.host(), new_host, "direct SRV answer: target host after a host rename");
        for r in resp.additionals() {
            if r.get_type() == RRType::A {
                assert_eq!(r.get_name(), new_host, "direct SRV answer: address additional owner");
            }
        }
    }
}
