use mdns_sd::{ServiceDaemon, ServiceInfo};
use std::time::Duration;

fn resend_count(instance: &str, port: u16) -> i64 {
    let d = ServiceDaemon::new_with_port(port).unwrap();
    let ty = "_f13demo._udp.local.";
    let host = format!("{}-host.local.", instance.to_lowercase());
    let info = ServiceInfo::new(ty, instance, &host, "127.0.0.1", 5200, None).unwrap();
    d.register(info).unwrap();
    // probing (<= 250 ms jitter + 750 ms) + first announcement + 1 s for the second one
    std::thread::sleep(Duration::from_millis(3500));
    let m = d.get_metrics().unwrap().recv().unwrap();
    let n = *m.get("register-resend").unwrap_or(&0);
    d.shutdown().unwrap();
    n
}

#[test]
fn f13_second_announcement_lowercase_name() {
    assert!(resend_count("lowercase", 15391) >= 1, "lower-case instance name: second announcement missing");
}

#[test]
fn f13_second_announcement_mixed_case_name() {
    assert!(resend_count("MixedCase", 15392) >= 1, "mixed-case instance name: second announcement never sent");
}
