import sys
sys.path.insert(0,'/verif/mirslice')
from mirslice import *
funcs, consts = parse_mir(open('/tmp/mir.txt').read())
def fn(suffix):
    c=[n for n in funcs if n.endswith(suffix)]
    assert len(c)==1, (suffix, c)
    return c[0]
import time; t0=time.time()
ex = Explorer(funcs, consts, inline=set(), max_visits=1, stop_calls=('Zeroconf::add_retransmission',))
d=z3.BitVec('d',32)
paths = ex.explore(fn('::exec_command_browse'), args=[None,None,None,BV(d,32),None,None])
from collections import Counter
print(Counter(p.outcome for p in paths), ex.n_solver_calls, time.time()-t0)
for p in paths:
    if p.outcome.startswith('stop'):
        ev=p.events[-1]
        print(ev[1], ev[2][1], ev[2][2], p.clock)
print(ex.unknown_constructs[:10])
