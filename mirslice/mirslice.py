#!/usr/local/bin/python3-vt
"""mirslice - Engine B: rustc MIR (-Zunpretty=mir) -> bit-vector SMT (z3, cross-checked by cvc5).

A small symbolic executor for the *scalar* fragment of MIR:

  integer / bool locals, IntToInt casts, checked (`*WithOverflow` + assert) and plain binary ops,
  comparisons, Not, tuple / struct field places through `&` / `&mut`, `switchInt`, `assert`,
  `goto`, `drop`, `return`, aggregates (kept structurally), calls.

Calls:  functions listed in `inline` are executed from their own MIR; `std::cmp::min/max`,
`<T as From<U>>::from` and `current_time_millis` are modelled; everything else returns a fresh
("havoc") value and havocs every object it gets a `&mut` to.  A havoc value that flows into a
checked operand taints the query (fail closed).

Exploration is a DFS over acyclic paths (each basic block at most `max_visits` times per frame),
with solver-side pruning of infeasible branches.  The result is a list of Path objects that a
spec (specs.py) turns into validity queries.
"""
import re
import sys
import itertools
import z3

# ----------------------------------------------------------------------------
# Parsing
# ----------------------------------------------------------------------------

INT_TYPES = {"u8": 8, "u16": 16, "u32": 32, "u64": 64, "u128": 128, "usize": 64,
             "i8": 8, "i16": 16, "i32": 32, "i64": 64, "i128": 128, "isize": 64}


def strip_turbofish(c):
    """remove ONE trailing `::<...>` group (balanced), e.g. HashMap::<K, V>::get_mut::<str> -> HashMap::<K, V>::get_mut"""
    c = c.strip()
    if not c.endswith(">"):
        return c
    depth = 0
    for i in range(len(c) - 1, -1, -1):
        ch = c[i]
        if ch == ">" and (i == 0 or c[i - 1] not in "-="):
            depth += 1
        elif ch == "<":
            depth -= 1
            if depth == 0:
                if c[max(0, i - 2):i] == "::":
                    return c[:i - 2]
                return c
    return c


class Func:
    def __init__(self, name, header):
        self.name = name
        self.header = header
        self.args = []        # [(local, type)]
        self.ret = None
        self.local_types = {}
        self.blocks = {}      # bbN -> (stmts, terminator)
        self.debug = {}       # debug name -> place text


def split_top(s, sep=","):
    """split on `sep` at bracket depth 0 (ignores separators inside (), [], {}, <>, strings)."""
    out, depth, cur, instr = [], 0, "", False
    i = 0
    while i < len(s):
        c = s[i]
        if instr:
            cur += c
            if c == "\\":
                cur += s[i + 1]
                i += 1
            elif c == '"':
                instr = False
        elif c == '"':
            instr = True
            cur += c
        elif c in "([{":
            depth += 1
            cur += c
        elif c in ")]}":
            depth -= 1
            cur += c
        elif c == "<" and (i + 1 < len(s) and s[i + 1] != "=" and s[i + 1] != " "):
            depth += 1
            cur += c
        elif c == ">" and depth > 0 and s[i - 1] not in "-=" and (i == 0 or s[i - 1] != " "):
            depth -= 1
            cur += c
        elif c == sep and depth == 0:
            out.append(cur.strip())
            cur = ""
        else:
            cur += c
        i += 1
    if cur.strip():
        out.append(cur.strip())
    return out


def load_enums(srcdir):
    """Discriminants of the crate's fieldless enums, read from the source (the MIR dump prints variant names in
    aggregates but numbers in switchInt): `Type::Variant` -> value. Fills ENUM_IDS."""
    import glob
    import os
    for fn in sorted(glob.glob(os.path.join(srcdir, "*.rs"))):
        try:
            txt = open(fn, errors="replace").read()
        except OSError:
            continue
        txt = re.sub(r"//[^\n]*", "", txt)
        for m in re.finditer(r"\benum (\w+)\s*\{([^{}]*)\}", txt):
            name, body = m.group(1), m.group(2)
            body = re.sub(r"#\[[^\]]*\]", "", body)
            vs = [v.strip() for v in body.split(",") if v.strip()]
            if not vs or any("(" in v for v in vs):
                continue
            nxt = 0
            for v in vs:
                mm = re.fullmatch(r"(\w+)(?:\s*=\s*(0x[0-9a-fA-F_]+|\d[\d_]*))?", v)
                if not mm:
                    break
                if mm.group(2):
                    nxt = int(mm.group(2).replace("_", ""), 0)
                ENUM_IDS[f"{name}::{mm.group(1)}"] = nxt
                nxt += 1


def parse_mir(text):
    funcs = {}
    consts = {}
    lines = text.split("\n")
    i = 0
    skip_ctfe = False
    while i < len(lines):
        ln = lines[i]
        if ln.startswith("// MIR FOR CTFE"):
            skip_ctfe = True
            i += 1
            continue
        m = re.match(r"^const ([\w:]+): (\w+) = const (\S+?);", ln)
        if m:
            consts[m.group(1).split("::")[-1]] = (m.group(3), m.group(2))
        mc = re.match(r"^const ([\w:<> ./-]+?): ([\w:]+) = \{$", ln)
        if mc:
            ln = f"fn const:{mc.group(1).split('::')[-1]}() -> {mc.group(2)} {{"
        mp = re.match(r"^const (.+::promoted\[\d+\]): (&?[\w:]+) = \{$", ln)
        if mp:
            # a promoted constant (`&RRType::A` in a comparison): keyed by its path after the impl block
            tail = mp.group(1).split(">::")[-1]
            ln = f"fn promoted:{tail}() -> {mp.group(2)} {{"
        m = re.match(r"^fn (.+?)\((.*)\) -> (.+) \{$", ln)
        if m:
            name, argtxt, ret = m.group(1), m.group(2), m.group(3)
            f = Func(name, ln)
            f.ret = ret
            for a in split_top(argtxt):
                mm = re.match(r"(_\d+): (.*)$", a)
                if mm:
                    f.args.append((mm.group(1), mm.group(2)))
                    f.local_types[mm.group(1)] = mm.group(2)
            f.local_types["_0"] = ret
            i += 1
            cur = None
            while i < len(lines) and lines[i] != "}":
                l = lines[i].strip()
                mm = re.match(r"let (?:mut )?(_\d+): (.*);$", l)
                if mm:
                    f.local_types[mm.group(1)] = mm.group(2)
                mm = re.match(r"debug (\w+) => (.*);$", l)
                if mm:
                    f.debug.setdefault(mm.group(1), mm.group(2))
                mm = re.match(r"(bb\d+)(?: \(cleanup\))?: \{$", l)
                if mm:
                    cur = mm.group(1)
                    f.blocks[cur] = []
                elif cur is not None:
                    if l == "}":
                        cur = None
                    elif l:
                        f.blocks[cur].append(l)
                i += 1
            for b, st in f.blocks.items():
                f.blocks[b] = (st[:-1], st[-1] if st else "unreachable;")
            if not skip_ctfe:
                funcs.setdefault(name, f)
            skip_ctfe = False
        i += 1
    return funcs, consts


# ----------------------------------------------------------------------------
# Values
# ----------------------------------------------------------------------------

_fresh = itertools.count()
PROMOTED = {}   # objects behind promoted constants: ("promoted", key) -> {(): value}
ENUM_IDS = {}   # fieldless enum variants compared with ==: variant path -> small distinct number (only equality matters)
LEMMAS = []   # definitional constraints on fresh symbols (division by constants); conjoined to every query


class BV:
    def __init__(self, e, width, signed=False, taint=False):
        self.e, self.width, self.signed, self.taint = e, width, signed, taint

    def __repr__(self):
        return f"BV{self.width}({self.e})"


class BoolV:
    def __init__(self, e, taint=False):
        self.e, self.taint = e, taint

    def __repr__(self):
        return f"Bool({self.e})"


class Tup:
    def __init__(self, items):
        self.items = list(items)

    def __repr__(self):
        return f"Tup{self.items}"


class Adt:
    def __init__(self, name, items, discr=None):
        self.name, self.items = name, list(items)
        self.discr = discr   # symbolic discriminant (64-bit term) of a modelled Option result, else None

    def __repr__(self):
        return f"{self.name}{self.items}"


class Ref:
    """pointer to a place: (object id, field path)"""

    def __init__(self, obj, path=(), mutable=True):
        self.obj, self.path, self.mutable = obj, tuple(path), mutable

    def __repr__(self):
        return f"&{'mut ' if self.mutable else ''}obj{self.obj}{list(self.path)}"


class Opaque:
    def __init__(self, why=""):
        self.id = next(_fresh)
        self.why = why

    def __repr__(self):
        return f"?{self.id}<{self.why}>"


def fresh_of_type(ty, hint, taint=False):
    ty = ty.strip()
    n = next(_fresh)
    if taint:
        hint = "HV_" + hint   # result of an unmodelled call / construct: see Decider (a sat answer that involves one is not a verdict)
    if ty in INT_TYPES:
        return BV(z3.BitVec(f"{hint}!{n}", INT_TYPES[ty]), INT_TYPES[ty], ty[0] == "i", taint)
    if ty == "bool":
        return BoolV(z3.Bool(f"{hint}!{n}"), taint)
    if ty.startswith("(") and ty.endswith(")") and ty != "()":
        return Tup([fresh_of_type(t, hint, taint) for t in split_top(ty[1:-1])])
    if ty.startswith("&") and not ty.startswith("&[") and "dyn " not in ty and "str" != ty.lstrip("&' a-z_").strip():
        # an unknown reference: a fresh object, so that repeated reads of its fields agree
        return Ref(("fresh", hint.split("!")[0][:24], n), (), mutable=ty.startswith("&mut") or " mut " in ty[:12])
    return Opaque(hint + ":" + ty)


class Path:
    def __init__(self):
        self.cond = []       # z3 Bool list
        self.events = []     # (kind, name, args, extra)
        self.outcome = None  # return / panic:<msg> / stop / cut
        self.ret = None
        self.trail = []      # (func, block) sequence
        self.clock = []      # symbols returned by current_time_millis, in order
        self.objs = {}       # object id -> {path tuple -> Value}
        self.tainted_reads = []
        self.acc = {}        # (accessor, receiver obj, receiver path) -> Value   (pure accessors of trait objects)


class Frame:
    def __init__(self, func, locals_, dest, ret_block, parent_visits=None):
        self.func, self.locals, self.dest, self.ret_block = func, locals_, dest, ret_block
        self.visits = {}


class Explorer:
    def __init__(self, funcs, consts, inline=(), max_visits=1, max_paths=4000, stop_calls=(), log=None, pure_accessors=()):
        self.funcs, self.consts = funcs, consts
        self.pure_accessors = set(pure_accessors)
        self.inline_nested = True
        self.inline = set(inline)
        self.max_visits, self.max_paths = max_visits, max_paths
        self.stop_calls = tuple(stop_calls)
        self.paths = []
        self.solver = z3.Solver()
        self.solver.set("timeout", 20000)
        self.n_solver_calls = 0
        self.unknown_constructs = []
        self.cut_paths = 0

    # ---- function lookup ----
    def resolve(self, callee):
        """callee text as printed in a call terminator -> Func or None"""
        c = strip_turbofish(callee)
        if c in self.funcs:
            return self.funcs[c]
        m = re.fullmatch(r"<(?:Self|dyn [\w:]+) as ([\w:]+)>::(\w+)", c)
        if m:
            # default (provided) trait method called on Self / a trait object
            n = m.group(1).split("::")[-1] + "::" + m.group(2)
            if n in self.funcs:
                return self.funcs[n]
        parts = c.split("::")
        meth = parts[-1]
        cands = [f for n, f in self.funcs.items() if n.split("::")[-1] == meth and "{closure" not in n]
        if len(parts) >= 2:
            ty = parts[-2]
            c2 = [f for f in cands if f.args and re.sub(r"^&(mut )?", "", f.args[0][1]).split("::")[-1] == ty]
            if len(c2) == 1:
                return c2[0]
            c3 = [f for f in cands if f.name.endswith(c)]
            if len(c3) == 1:
                return c3[0]
            return cands[0] if len(cands) == 1 else None   # a name that is unique in the crate
        c1 = [f for f in cands if "::" not in f.name]
        if len(c1) == 1:
            return c1[0]
        return cands[0] if len(cands) == 1 else None   # a name that is unique in the crate

    # ---- places ----
    def parse_place(self, txt):
        """-> (root local, [steps]) with steps: ('deref',) | ('field', k, type) | ('downcast', name)"""
        t = txt.strip()
        steps = []
        while True:
            if re.fullmatch(r"_\d+", t):
                return t, list(reversed(steps))
            mi = re.fullmatch(r"(.*)\[(_\d+)\]", t, re.S)
            if mi:
                steps.append(("index", mi.group(2)))
                t = mi.group(1).strip()
                continue
            if t.startswith("(*") and t.endswith(")"):
                steps.append(("deref",))
                t = t[2:-1].strip()
                continue
            m = re.fullmatch(r"\((.*)\.(\d+): ([^()]*(?:\(.*\))?[^()]*)\)", t, re.S)
            if m and t.startswith("("):
                # make sure the split is at top level: find the last ".k: T)" at depth 1
                inner, k, ty = self._split_field(t)
                if inner is not None:
                    steps.append(("field", int(k), ty))
                    t = inner.strip()
                    continue
            m = re.fullmatch(r"\((.*) as (\w+)\)", t, re.S)
            if m:
                steps.append(("downcast", m.group(2)))
                t = m.group(1).strip()
                continue
            raise ValueError("place: " + txt)

    def _split_field(self, t):
        # t = "(" inner "." k ": " type ")" ; inner may itself contain parens
        depth = 0
        pos = None
        for i, c in enumerate(t):
            if c in "(<[":
                depth += 1
            elif c in ")>]":
                depth -= 1
            elif c == "." and depth == 1:
                m = re.match(r"\.(\d+): ", t[i:])
                if m:
                    pos = (i, m)
        if pos is None:
            return None, None, None
        i, m = pos
        return t[1:i], m.group(1), t[i + len(m.group(0)):-1]

    def read_place(self, st, frame, txt, want_ty=None):
        root, steps = self.parse_place(txt)
        v = frame.locals.get(root)
        cur_ty = frame.func.local_types.get(root, "?")
        if v is None:
            if cur_ty.startswith("&"):
                v = Ref(("loc", frame.func.name.split("::")[-1], root, next(_fresh)), ())
            else:
                v = fresh_of_type(cur_ty, f"{frame.func.name.split('::')[-1]}.{root}")
            frame.locals[root] = v
        for s in steps:
            if s[0] == "deref":
                pointee = re.sub(r"^&(?:'\w+ )?(?:mut )?", "", cur_ty.strip()) if cur_ty.strip().startswith("&") else None
                cur_ty = pointee or "?"
                if isinstance(v, Ref):
                    o = st.objs.setdefault(v.obj, {})
                    if v.path in o:
                        v = o[v.path]
                    elif pointee and (pointee in INT_TYPES or pointee == "bool"):
                        v = self.obj_read(st, v.obj, v.path, pointee)
                    else:
                        v = _ObjView(v.obj, v.path)
                elif isinstance(v, _ObjView):
                    # a pointer stored inside an object: its pointee is a sub-object of that place
                    v = _ObjView(v.obj, v.path + ("*",))
                else:
                    v = Opaque("deref of non-ref")
            elif s[0] == "field":
                _, k, ty = s
                cur_ty = ty
                if isinstance(v, _ObjView):
                    v = self.obj_read(st, v.obj, v.path + (k,), ty)
                elif isinstance(v, (Tup, Adt)):
                    v = v.items[k] if k < len(v.items) else Opaque("field oob")
                elif isinstance(v, Opaque):
                    v = fresh_of_type(ty, "hv", taint=True)
                    if isinstance(v, Opaque) and ty.strip().startswith("&"):
                        v = Ref(("hv", next(_fresh)), ())
                else:
                    v = Opaque("field of scalar")
            elif s[0] == "index":
                # an element of a slice/array at a (bounds-checked) symbolic index: an arbitrary value
                v = Opaque("index")
                cur_ty = "?"
            elif s[0] == "downcast":
                pass
        return v

    def _closure_of(self, callee):
        """the MIR function of the closure named in a callee's turbofish (`{closure@src/x.rs:L:C: L:C}`), or None"""
        m = re.search(r"\{closure@[^}]*\}", callee)
        if not m:
            return None
        cache = self.__dict__.setdefault("_closure_cache", {})
        if m.group(0) not in cache:
            c = [f for f in self.funcs.values() if f.args and m.group(0) in f.args[0][1] and "{closure" in f.name]
            cache[m.group(0)] = c[0] if len(c) == 1 else None
        return cache[m.group(0)]

    def _enum_operand(self, st, ref):
        v = st.objs.get(ref.obj, {}).get(ref.path) if ref.obj in st.objs or ref.obj not in PROMOTED else PROMOTED[ref.obj].get(ref.path)
        if isinstance(v, BV):
            return v
        if isinstance(v, Adt) and not v.items and v.discr is None and re.fullmatch(r"[\w:]+", v.name):
            key = "::".join(v.name.split("::")[-2:])
            if key not in ENUM_IDS:
                ENUM_IDS[key] = 40000 + len(ENUM_IDS)   # unknown to load_enums: any number distinct from the others
            return BV(z3.BitVecVal(ENUM_IDS[key] & 0xFFFF, 16), 16)
        return None

    def obj_read(self, st, obj, path, ty):
        if obj not in st.objs and obj in PROMOTED:
            st.objs[obj] = dict(PROMOTED[obj])
        o = st.objs.setdefault(obj, {})
        if path in o:
            return o[path]
        if ty is None:
            return _ObjView(obj, path)
        oname = "_".join(str(x) for x in obj[:3]) if isinstance(obj, tuple) else str(obj)
        oname = re.sub(r"[^A-Za-z0-9_.]", "_", oname)[:40]
        v = fresh_of_type(ty, f"obj{oname}." + ".".join(map(str, path)))
        if isinstance(v, Opaque):
            if ty.strip().startswith("&"):
                v = Ref(("fld", next(_fresh)), ())
                o[path] = v
            else:
                v = _ObjView(obj, path)
        else:
            o[path] = v
        return v

    def write_place(self, st, frame, txt, val):
        root, steps = self.parse_place(txt)
        if not steps:
            frame.locals[root] = val
            return
        # walk to the container
        v = frame.locals.get(root)
        if v is None:
            v = fresh_of_type(frame.func.local_types.get(root, "?"), root)
            frame.locals[root] = v
        # only two shapes are needed: (*_r).k... = v  and  (_t.k) = v
        cur = v
        i = 0
        view = None
        while i < len(steps):
            s = steps[i]
            last = i == len(steps) - 1
            if s[0] == "deref":
                if isinstance(cur, Ref):
                    view = _ObjView(cur.obj, cur.path)
                    if last:
                        st.objs.setdefault(view.obj, {})[view.path] = val
                        return
                    cur = view
                else:
                    self.unknown_constructs.append("write through non-ref: " + txt)
                    return
            elif s[0] == "field":
                k = s[1]
                if isinstance(cur, _ObjView):
                    np = cur.path + (k,)
                    if last:
                        o = st.objs.setdefault(cur.obj, {})
                        # invalidate sub-paths
                        for p in [p for p in o if p[:len(np)] == np]:
                            del o[p]
                        o[np] = val
                        return
                    cur = _ObjView(cur.obj, np)
                elif isinstance(cur, (Tup, Adt)):
                    if last:
                        cur.items[k] = val
                        return
                    cur = cur.items[k]
                else:
                    self.unknown_constructs.append("write into opaque: " + txt)
                    return
            i += 1

    # ---- operands / rvalues ----
    def const(self, txt):
        t = txt.strip()
        if t in ("true", "false"):
            return BoolV(z3.BoolVal(t == "true"))
        m = re.fullmatch(r"(-?\d[\d_]*)_([ui](?:8|16|32|64|128|size))", t)
        if m:
            w = INT_TYPES[m.group(2)]
            return BV(z3.BitVecVal(int(m.group(1).replace("_", "")), w), w, m.group(2)[0] == "i")
        mnum = re.fullmatch(r"(?:core|std)::num::<impl (u(?:8|16|32|64|128|size))>::(MAX|MIN)", t) or re.fullmatch(r"(u(?:8|16|32|64|128|size))::(MAX|MIN)", t)
        if mnum:
            w = INT_TYPES[mnum.group(1)]
            return BV(z3.BitVecVal((1 << w) - 1 if mnum.group(2) == "MAX" else 0, w), w)
        name = t.split("::")[-1]
        if name in self.consts:
            v, ty = self.consts[name]
            return self.const(v)
        if ("const:" + name) in self.funcs and name not in getattr(self, "_const_busy", set()):
            # a const item with a body (e.g. `const MAX: u32 = 60 * 60;`): evaluate the body once
            cache = self.__dict__.setdefault("_const_cache", {})
            if name not in cache:
                self.__dict__.setdefault("_const_busy", set()).add(name)
                sub = Explorer(self.funcs, self.consts)
                rets = [p for p in sub.explore("const:" + name) if p.outcome == "return"]
                self._const_busy.discard(name)
                v = rets[0].ret if len(rets) == 1 else None
                if isinstance(v, BV):
                    sv = z3.simplify(v.e)
                    v = BV(sv, v.width, v.signed) if z3.is_bv_value(sv) else None
                cache[name] = v
            if cache[name] is not None:
                return cache[name]
        if t == "()":
            return Tup([])
        if re.search(r"::promoted\[\d+\]$", t):
            segs = t.split("::")
            for k in range(len(segs) - 2, -1, -1):
                key = "promoted:" + "::".join(segs[k:])
                if key in self.funcs:
                    cache = self.__dict__.setdefault("_promoted_cache", {})
                    if key not in cache:
                        sub = Explorer(self.funcs, self.consts)
                        rets = [p for p in sub.explore(key) if p.outcome == "return"]
                        val = None
                        if len(rets) == 1 and isinstance(rets[0].ret, Ref):
                            val = rets[0].objs.get(rets[0].ret.obj, {}).get(rets[0].ret.path)
                        cache[key] = val
                    if cache[key] is not None:
                        PROMOTED[("promoted", key)] = {(): cache[key]}
                        return Ref(("promoted", key), (), mutable=False)
                    break
        return Opaque("const " + t[:40])

    def operand(self, st, frame, txt):
        t = txt.strip()
        if t.startswith("copy ") or t.startswith("move "):
            return self.read_place(st, frame, t[5:])
        if t.startswith("const "):
            return self.const(t[6:])
        return Opaque("operand " + t[:40])

    def coerce_bv(self, v, width=None):
        if isinstance(v, BV):
            return v
        if isinstance(v, BoolV):
            return BV(z3.If(v.e, z3.BitVecVal(1, 8), z3.BitVecVal(0, 8)), 8, False, v.taint)
        w = width or 64
        return BV(z3.BitVec(f"HV_hv!{next(_fresh)}", w), w, False, True)

    def binop(self, op, a, b):
        if op in ("Eq", "Ne") and isinstance(a, BoolV) and isinstance(b, BoolV):
            e = a.e == b.e
            return BoolV(e if op == "Eq" else z3.Not(e), a.taint or b.taint)
        if isinstance(a, BoolV) and isinstance(b, BoolV) and op in ("BitAnd", "BitOr", "BitXor"):
            e = {"BitAnd": z3.And, "BitOr": z3.Or, "BitXor": z3.Xor}[op](a.e, b.e)
            return BoolV(e, a.taint or b.taint)
        a = self.coerce_bv(a, b.width if isinstance(b, BV) else None)
        b = self.coerce_bv(b, a.width)
        t = a.taint or b.taint
        w = a.width
        if b.width != w:
            if op in ("Shl", "Shr", "ShlUnchecked", "ShrUnchecked"):
                be = z3.ZeroExt(w - b.width, b.e) if b.width < w else z3.Extract(w - 1, 0, b.e)
                b = BV(be, w, b.signed, b.taint)
            else:
                return fresh_of_type("u64", "widthmismatch", True)
        s = a.signed
        x, y = a.e, b.e
        base = op.replace("WithOverflow", "").replace("Unchecked", "")
        if base == "Add":
            r = x + y
            if not s:
                ov = z3.ULT(r, x)
            else:
                wide = z3.SignExt(1, x) + z3.SignExt(1, y)
                ov = wide != z3.SignExt(1, r)
        elif base == "Sub":
            r = x - y
            if not s:
                ov = z3.ULT(x, y)
            else:
                wide = z3.SignExt(1, x) - z3.SignExt(1, y)
                ov = wide != z3.SignExt(1, r)
        elif base == "Mul":
            r = x * y
            if not s:
                ov = umul_overflow(x, y, w)
            else:
                wide = z3.SignExt(w, x) * z3.SignExt(w, y)
                ov = wide != z3.SignExt(w, r)
        elif base in ("Div", "Rem") and not s and z3.is_bv_value(z3.simplify(y)) and z3.simplify(y).as_long() > 1:
            # division by a constant: fresh quotient/remainder + the division lemma (bit-blasting a
            # 64-bit divider stalls both solvers; the lemma defines q, r uniquely)
            c = z3.simplify(y).as_long()
            n = next(_fresh)
            qv, rv = z3.BitVec(f"divq!{n}", w), z3.BitVec(f"divr!{n}", w)
            LEMMAS.extend([z3.ULE(qv, z3.BitVecVal(((1 << w) - 1) // c, w)), z3.ULT(rv, z3.BitVecVal(c, w)),
                           x == qv * z3.BitVecVal(c, w) + rv, z3.ULE(qv * z3.BitVecVal(c, w), x)])
            r = qv if base == "Div" else rv
            ov = None
        elif base == "Div":
            r = z3.UDiv(x, y) if not s else x / y
            ov = None
        elif base == "Rem":
            r = z3.URem(x, y) if not s else z3.SRem(x, y)
            ov = None
        elif base == "BitAnd":
            r, ov = x & y, None
        elif base == "BitOr":
            r, ov = x | y, None
        elif base == "BitXor":
            r, ov = x ^ y, None
        elif base == "Shl":
            r, ov = x << y, None
        elif base == "Shr":
            r, ov = (z3.LShR(x, y) if not s else x >> y), None
        elif base in ("Eq", "Ne", "Lt", "Le", "Gt", "Ge"):
            e = {"Eq": x == y, "Ne": x != y,
                 "Lt": z3.ULT(x, y) if not s else x < y, "Le": z3.ULE(x, y) if not s else x <= y,
                 "Gt": z3.UGT(x, y) if not s else x > y, "Ge": z3.UGE(x, y) if not s else x >= y}[base]
            return BoolV(e, t)
        else:
            self.unknown_constructs.append("binop " + op)
            return fresh_of_type("u64", "unkop", True)
        if op.endswith("WithOverflow"):
            return Tup([BV(r, w, s, t), BoolV(ov if ov is not None else z3.BoolVal(False), t)])
        return BV(r, w, s, t)

    def rvalue(self, st, frame, txt, dest_ty=None):
        t = txt.strip()
        m = re.fullmatch(r"(copy|move) (.*) as (\w+) \((\w+)\)", t)
        if m:
            v = self.read_place(st, frame, m.group(2))
            ty = m.group(3)
            if ty in INT_TYPES and isinstance(v, (BV, BoolV)):
                v = self.coerce_bv(v)
                w = INT_TYPES[ty]
                if w > v.width:
                    e = z3.SignExt(w - v.width, v.e) if v.signed else z3.ZeroExt(w - v.width, v.e)
                elif w < v.width:
                    e = z3.Extract(w - 1, 0, v.e)
                else:
                    e = v.e
                return BV(e, w, ty[0] == "i", v.taint)
            return fresh_of_type(ty, "cast", True)
        m = re.fullmatch(r"const (.*) as (\w+) \((\w+)\)", t)
        if m:
            v = self.rvalue(st, frame, "const " + m.group(1))
            ty = m.group(2)
            if m.group(3) == "IntToInt" and ty in INT_TYPES and isinstance(v, BV) and v.width != INT_TYPES[ty]:
                w = INT_TYPES[ty]
                e = (z3.SignExt(w - v.width, v.e) if v.signed else z3.ZeroExt(w - v.width, v.e)) if w > v.width else z3.Extract(w - 1, 0, v.e)
                v = BV(e, w, ty[0] == "i", v.taint)
            return v
        m = re.fullmatch(r"(copy|move) (.*) as (.+) \((Transmute|PtrToPtr|PointerCoercion.*|Unsize)\)", t, re.S)
        if m:
            return self.read_place(st, frame, m.group(2))
        if t.startswith(("copy ", "move ", "const ")):
            return self.operand(st, frame, t)
        m = re.fullmatch(r"(\w+)\((.*)\)", t, re.S)
        if m and m.group(1) in ("Add", "Sub", "Mul", "Div", "Rem", "BitAnd", "BitOr", "BitXor", "Shl", "Shr",
                                "Eq", "Ne", "Lt", "Le", "Gt", "Ge", "AddWithOverflow", "SubWithOverflow",
                                "MulWithOverflow", "AddUnchecked", "SubUnchecked", "MulUnchecked",
                                "ShlUnchecked", "ShrUnchecked"):
            a, b = split_top(m.group(2))
            return self.binop(m.group(1), self.operand(st, frame, a), self.operand(st, frame, b))
        if m and m.group(1) == "Not":
            v = self.operand(st, frame, m.group(2))
            if isinstance(v, BoolV):
                return BoolV(z3.Not(v.e), v.taint)
            v = self.coerce_bv(v)
            return BV(~v.e, v.width, v.signed, v.taint)
        if m and m.group(1) == "Neg":
            v = self.coerce_bv(self.operand(st, frame, m.group(2)))
            return BV(-v.e, v.width, v.signed, v.taint)
        m = re.fullmatch(r"(?:PtrMetadata|Len)\((?:copy |move )?(.*)\)", t)
        if m:
            v = self.read_place(st, frame, m.group(1)) if not m.group(1).startswith("(*") else self.read_place(st, frame, m.group(1)[2:-1])
            if isinstance(v, Ref):
                key = ("len", v.obj, v.path)
                if key not in st.acc:
                    st.acc[key] = fresh_of_type("usize", "len", False)
                return st.acc[key]
            return fresh_of_type("usize", "len", True)
        m = re.fullmatch(r"discriminant\((.*)\)", t)
        if m:
            v = self.read_place(st, frame, m.group(1))
            if isinstance(v, Adt) and v.discr is not None:
                return BV(v.discr, 64, True)
            if isinstance(v, BV) and v.width == 16 and not v.taint and ENUM_IDS:
                return BV(z3.ZeroExt(48, v.e), 64, True)   # a fieldless enum kept as its discriminant (see _enum_operand / load_enums)
            if isinstance(v, Adt):
                short = v.name.split("::")[-1]
                known = {"None": 0, "Some": 1, "Ok": 0, "Err": 1}
                if short in known:
                    return BV(z3.BitVecVal(known[short], 64), 64, True)
            dv = fresh_of_type("isize", "discr", False)
            st.events.append(("discr", frame.func.name, m.group(1).strip(), dv))
            return dv
        if re.fullmatch(r"[A-Za-z_][\w:<>, &'()\[\]]*::(None|Some|Ok|Err)", t) and t.endswith("None"):
            return Adt(t, [])
        # references
        m = re.fullmatch(r"&(mut |raw const |raw mut )?(.*)", t)
        if m:
            shared = m.group(1) is None   # a shared borrow: an unknown callee cannot write through it
            m = re.fullmatch(r"&(?:mut |raw const |raw mut )?(.*)", t)
            root, steps = self.parse_place(m.group(1))
            base = frame.locals.get(root)
            if steps and steps[0][0] == "deref" and isinstance(base, Ref):
                path = base.path + tuple(s[1] for s in steps[1:] if s[0] == "field")
                return Ref(base.obj, path, mutable=(not shared) and base.mutable)
            if steps and steps[0][0] == "deref" and isinstance(base, _ObjView):
                path = base.path + tuple(s[1] for s in steps[1:] if s[0] == "field")
                return Ref(base.obj, path, mutable=not shared)
            if not steps:
                # reference to a local: box the local in an object
                oid = ("local", id(frame), root)
                st.objs.setdefault(oid, {})
                if root in frame.locals:
                    st.objs[oid][()] = frame.locals[root]
                return Ref(oid, (), mutable=not shared)
            return Opaque("ref " + t[:40])
        m = re.fullmatch(r"no_retag (copy|move) (.*)", t)
        if m:
            return self.read_place(st, frame, m.group(2))
        # tuple aggregate
        if t.startswith("(") and t.endswith(")"):
            return Tup([self.operand(st, frame, x) for x in split_top(t[1:-1])])
        # ADT aggregate  Path::Variant(args)  /  Path { f: v }
        m = re.fullmatch(r"([\w:<>, &']+?)\((.*)\)", t, re.S)
        if m and re.match(r"[A-Za-z_]", m.group(1)):
            return Adt(m.group(1).strip(), [self.operand(st, frame, x) for x in split_top(m.group(2))])
        m = re.fullmatch(r"([\w:<>, &']+?) \{ (.*) \}", t, re.S)
        if m:
            items = []
            for fv in split_top(m.group(2)):
                k, _, v = fv.partition(": ")
                items.append(self.operand(st, frame, v))
            return Adt(m.group(1).strip(), items)
        if re.fullmatch(r"[A-Za-z_]\w*(::[A-Za-z_]\w*)*::[A-Z]\w*", t):
            return Adt(t, [])   # a fieldless enum variant (`RRType::A`)
        if dest_ty:
            return fresh_of_type(dest_ty, "rv", True)
        return Opaque("rvalue " + t[:50])

    # ---- exploration ----
    def feasible(self, conds):
        self.n_solver_calls += 1
        self.solver.push()
        self.solver.add(*conds)
        r = self.solver.check()
        self.solver.pop()
        return r != z3.unsat

    def explore(self, fname, args=None, objs=None, start_block="bb0", locals_=None, assumptions=()):
        f = self.funcs[fname] if isinstance(fname, str) else fname
        st = Path()
        st.cond = list(assumptions)
        if objs:
            st.objs = objs
        loc = dict(locals_ or {})
        for (l, ty), v in zip(f.args, args or []):
            if v is not None:
                loc[l] = v
        for l, ty in f.args:
            if l not in loc:
                if ty.startswith("&"):
                    oid = next(_fresh)
                    loc[l] = Ref(("arg", f.name.split("::")[-1], l, oid), ())
                else:
                    loc[l] = fresh_of_type(ty, f.name.split("::")[-1] + "." + l)
        self._run(st, [Frame(f, loc, None, None)], start_block)
        return self.paths

    def _clone(self, st, frames):
        import copy
        nst = Path()
        nst.cond = list(st.cond)
        nst.events = list(st.events)
        nst.trail = list(st.trail)
        nst.clock = list(st.clock)
        nst.objs = {k: dict(v) for k, v in st.objs.items()}
        nst.acc = dict(st.acc)
        nfr = []
        for fr in frames:
            n = Frame(fr.func, {k: (Tup(list(v.items)) if isinstance(v, Tup) else v) for k, v in fr.locals.items()}, fr.dest, fr.ret_block)
            n.visits = dict(fr.visits)
            nfr.append(n)
        return nst, nfr

    def _finish(self, st, outcome, ret=None):
        st.outcome, st.ret = outcome, ret
        self.paths.append(st)

    def _run(self, st, frames, block):
        while True:
            if len(self.paths) >= self.max_paths:
                self.cut_paths += 1
                return
            fr = frames[-1]
            f = fr.func
            fr.visits[block] = fr.visits.get(block, 0) + 1
            if fr.visits[block] > self.max_visits:
                st.final_locals = dict(fr.locals)
                self._finish(st, "cut:loop@" + f.name.split("::")[-1] + ":" + block)
                return
            st.trail.append((f.name.split("::")[-1], block))
            stmts, term = f.blocks[block]
            for s in stmts:
                if s.startswith(("StorageLive", "StorageDead", "nop", "FakeRead", "PlaceMention", "Retag", "Coverage", "ConstEvalCounter", "AscribeUserType", "BackwardIncompatibleDropHint")):
                    continue
                m = re.match(r"(.+?) = (.*);$", s, re.S)
                if not m:
                    if not s.startswith(("Deinit", "discriminant", "assume", "SetDiscriminant", "set_discriminant")):
                        self.unknown_constructs.append("stmt " + s[:60])
                    continue
                try:
                    root, steps = self.parse_place(m.group(1))
                    dty = f.local_types.get(root) if not steps else (steps[-1][2] if steps[-1][0] == "field" else None)
                    v = self.rvalue(st, fr, m.group(2), dty)
                    if isinstance(v, Opaque) and dty and (dty in INT_TYPES or dty == "bool"):
                        v = fresh_of_type(dty, "elem" if v.why == "index" else "hv", v.why != "index")
                    self.write_place(st, fr, m.group(1), v)
                except ValueError as e:
                    self.unknown_constructs.append(str(e)[:80])
            # ---- terminator ----
            t = term
            m = re.match(r"goto -> (bb\d+);", t)
            if m:
                block = m.group(1)
                continue
            if t.startswith("return"):
                ret = fr.locals.get("_0")
                if len(frames) == 1:
                    self._finish(st, "return", ret)
                    return
                frames.pop()
                caller = frames[-1]
                if fr.dest:
                    self.write_place(st, caller, fr.dest, ret if ret is not None else Tup([]))
                block = fr.ret_block
                if block is None:
                    self._finish(st, "diverge")
                    return
                continue
            m = re.match(r"drop\(.*\) -> \[return: (bb\d+)", t)
            if m:
                block = m.group(1)
                continue
            m = re.match(r"switchInt\((.*)\) -> \[(.*)\];", t)
            if m:
                v = self.operand(st, fr, m.group(1))
                targets = []
                for tg in split_top(m.group(2)):
                    k, _, b = tg.partition(": ")
                    targets.append((k.strip(), b.strip()))
                conds = []
                seen = []
                for k, b in targets:
                    if k == "otherwise":
                        if isinstance(v, BoolV):
                            c = z3.And(*[z3.Not(x) for x in seen]) if seen else z3.BoolVal(True)
                        else:
                            c = z3.And(*[z3.Not(x) for x in seen]) if seen else z3.BoolVal(True)
                    else:
                        kv = int(k)
                        if isinstance(v, BoolV):
                            c = v.e if kv != 0 else z3.Not(v.e)
                        elif isinstance(v, BV):
                            c = v.e == z3.BitVecVal(kv, v.width)
                        else:
                            c = z3.Bool(f"br!{next(_fresh)}")
                            st.events.append(("opaque-branch", f.name, m.group(1), None))
                        seen.append(c)
                    conds.append((c, b))
                live = [(c, b) for c, b in conds if self.feasible(st.cond + [c])]
                if not live:
                    self._finish(st, "infeasible")
                    return
                for c, b in live[1:]:
                    nst, nfr = self._clone(st, frames)
                    nst.cond.append(c)
                    self._run(nst, nfr, b)
                st.cond.append(live[0][0])
                block = live[0][1]
                continue
            m = re.match(r"assert\((!?)(.*?), \"(.*?)\".*\) -> \[success: (bb\d+)", t, re.S)
            if m:
                neg, op, msg, ok = m.groups()
                v = self.operand(st, fr, op)
                if isinstance(v, BoolV):
                    c = z3.Not(v.e) if neg else v.e
                else:
                    c = z3.Bool(f"assert!{next(_fresh)}")
                # failing side
                if self.feasible(st.cond + [z3.Not(c)]):
                    nst, nfr = self._clone(st, frames)
                    nst.cond.append(z3.Not(c))
                    nst.events.append(("panic", f.name, msg, isinstance(v, BoolV) and v.taint))
                    self._finish(nst, "panic:" + msg[:60])
                if not self.feasible(st.cond + [c]):
                    self._finish(st, "infeasible")
                    return
                st.cond.append(c)
                block = ok
                continue
            if t.startswith(("unreachable", "resume", "abort", "terminate")):
                self._finish(st, "unreachable")
                return
            # call
            m = re.match(r"(?:(.+?) = )?(.+?)\((.*)\) -> (.*);$", t, re.S)
            if m:
                dest, callee, argtxt, tail = m.groups()
                if "(" in argtxt or "(" in callee:
                    # a callee path with parentheses of its own: `<(dyn Any + 'static)>::downcast_ref::<T>(copy _1)`
                    head = t[len(dest) + 3 if dest else 0:]
                    cut = head.rfind(") -> ")
                    depth, k = 0, cut
                    while k >= 0:
                        depth += head[k] == ")"
                        depth -= head[k] == "("
                        if depth == 0:
                            break
                        k -= 1
                    if k > 0:
                        callee, argtxt, tail = head[:k], head[k + 1:cut], head[cut + 5:].rstrip(";")
                rb = re.search(r"return: (bb\d+)", tail)
                ret_block = rb.group(1) if rb else None
                args = [self.operand(st, fr, a) for a in split_top(argtxt)]
                cname = strip_turbofish(callee)
                short = cname.split("::")[-1]
                st.events.append(("call", cname, args, (f.name.split("::")[-1], block)))
                if any(cname.endswith(sc) for sc in self.stop_calls):
                    st.final_locals = dict(fr.locals)
                    self._finish(st, "stop:" + cname)
                    return
                # models
                cm = next((fn_ for suf, fn_ in getattr(self, "call_models", {}).items() if cname.endswith(suf)), None)
                if cm is not None:
                    rv = cm(st, args)   # a spec-supplied contract for an otherwise opaque callee
                elif re.match(r"<\{closure@[^}]*\} as Fn(?:Mut|Once)?<", cname) and len(args) == 2 and isinstance(args[1], Tup) \
                        and self._closure_of(cname) is not None and len(frames) < 12 \
                        and len(self._closure_of(cname).args) == 1 + len(args[1].items):
                    # a direct call of a local closure: run the closure's own MIR (arguments arrive as one tuple)
                    target = self._closure_of(cname)
                    loc = {}
                    for (l, ty), v in zip(target.args, [args[0]] + list(args[1].items)):
                        loc[l] = v
                    frames.append(Frame(target, loc, dest, ret_block))
                    block = "bb0"
                    continue
                elif re.search(r"(str::<impl str>|slice::<impl \[\w+\]>)::len$", cname) and len(args) == 1 and isinstance(args[0], Ref):
                    # str::len / <[T]>::len: the same pure length as PtrMetadata of that reference
                    key = ("len", args[0].obj, args[0].path)
                    if key not in st.acc:
                        st.acc[key] = fresh_of_type("usize", "len", False)
                    rv = st.acc[key]
                elif re.search(r"Option::<.*>::map_or$", cname) and len(args) == 3 and isinstance(args[0], Adt) and args[0].discr is not None \
                        and self._closure_of(callee) is not None and len(frames) < 12:
                    # Option::map_or(default, f) on a modelled Option: None -> default (explored as its own path), Some(x) -> f(x) from f's MIR
                    d = args[0].discr
                    nst, nfr = self._clone(st, frames)
                    nst.cond.append(d == 0)
                    if self.feasible(nst.cond):
                        nst.events.append(("ret", cname, args[1], None))
                        if dest:
                            self.write_place(nst, nfr[-1], dest, args[1])
                        self._run(nst, nfr, ret_block)
                    st.cond.append(d == 1)
                    if not self.feasible(st.cond):
                        return
                    target = self._closure_of(callee)
                    loc = {}
                    vals = [args[2]] + list(args[0].items[:1])
                    for (l, ty), v in zip(target.args, vals):
                        loc[l] = v
                    frames.append(Frame(target, loc, dest, ret_block))
                    block = "bb0"
                    continue
                elif cname.endswith("as Try>::branch") and len(args) == 1 and isinstance(args[0], Adt) and args[0].discr is not None:
                    # `?` on a modelled Result/Option: Ok/Some (0/1) -> Continue(payload), Err/None -> Break
                    d = args[0].discr
                    if "Option" in args[0].name:
                        d = z3.If(d == 1, z3.BitVecVal(0, 64), z3.BitVecVal(1, 64))
                    rv = Adt("ControlFlow::Continue?", list(args[0].items), discr=d)
                elif short in ("min", "max") and ("cmp::" in cname or re.search(r"<[ui](8|16|32|64|128|size) as Ord>::", cname)) and len(args) == 2:
                    a = self.coerce_bv(args[0], args[1].width if isinstance(args[1], BV) else None)
                    b = self.coerce_bv(args[1], a.width)
                    if a.width != b.width:
                        b = BV(z3.BitVec(f"HV_hv!{next(_fresh)}", a.width), a.width, a.signed, True)
                    lt = z3.ULT(a.e, b.e) if not a.signed else a.e < b.e
                    e = z3.If(lt, a.e, b.e) if short == "min" else z3.If(lt, b.e, a.e)
                    rv = BV(e, a.width, a.signed, a.taint or b.taint)
                elif re.search(r"num::<impl u(8|16|32|64|128|size)>::(saturating|wrapping|checked)_(add|sub|mul)$|num::<impl u(8|16|32|64|128|size)>::abs_diff$", cname) \
                        and len(args) == 2 and isinstance(args[0], BV) and isinstance(args[1], BV) and args[0].width == args[1].width:
                    # unsigned integer methods of core, by their definitions (exact)
                    a, b, w = args[0], args[1], args[0].width
                    tnt = a.taint or b.taint
                    mx = z3.BitVecVal((1 << w) - 1, w)
                    if short == "abs_diff":
                        rv = BV(z3.If(z3.ULT(a.e, b.e), b.e - a.e, a.e - b.e), w, False, tnt)
                    else:
                        kind, op = short.split("_")
                        if op == "add":
                            res, ovf = a.e + b.e, z3.ULT(a.e + b.e, a.e)
                            sat = mx
                        elif op == "sub":
                            res, ovf = a.e - b.e, z3.ULT(a.e, b.e)
                            sat = z3.BitVecVal(0, w)
                        else:
                            res, ovf = a.e * b.e, umul_overflow(a.e, b.e, w)
                            sat = mx
                        if kind == "wrapping":
                            rv = BV(res, w, False, tnt)
                        elif kind == "saturating":
                            rv = BV(z3.If(ovf, sat, res), w, False, tnt)
                        else:
                            rv = Adt("Option::Some?", [BV(res, w, False, tnt)], discr=z3.If(ovf, z3.BitVecVal(0, 64), z3.BitVecVal(1, 64)))
                elif re.fullmatch(r"<(\w+) as PartialEq>::(eq|ne)", cname) and len(args) == 2 and all(isinstance(a, Ref) for a in args) \
                        and self._enum_operand(st, args[0]) is not None and self._enum_operand(st, args[1]) is not None:
                    # == on a fieldless enum (derived PartialEq): equal discriminants. Variants get distinct numbers;
                    # a symbolic operand (BV) ranges over all of them and over "any other variant"
                    a, b = self._enum_operand(st, args[0]), self._enum_operand(st, args[1])
                    w = max(a.width, b.width)
                    ae = z3.ZeroExt(w - a.width, a.e) if a.width < w else a.e
                    be = z3.ZeroExt(w - b.width, b.e) if b.width < w else b.e
                    eqv = ae == be
                    rv = BoolV(eqv if short == "eq" else z3.Not(eqv), a.taint or b.taint)
                elif short in ("get_record", "get_record_mut") and len(args) == 1 and isinstance(args[0], Ref):
                    # pure accessor of the trait object: same receiver -> same record object
                    rv = Ref(("record-of", args[0].obj, args[0].path), ())
                elif short in self.pure_accessors and len(args) >= 1 and isinstance(args[0], Ref) and dest and re.fullmatch(r"_\d+", dest.strip()) \
                        and all(isinstance(a, BV) for a in args[1:]):
                    # pure scalar accessor of a trait object: one symbol per (accessor, receiver[, scalar arguments])
                    key = (short, args[0].obj, args[0].path) + tuple(str(a.e) for a in args[1:])
                    if key not in st.acc:
                        st.acc[key] = fresh_of_type(fr.func.local_types.get(dest.strip(), "u64"), "acc." + short, False)
                        if isinstance(st.acc[key], Opaque) and short in getattr(self, "enum_accessors", ()):
                            # an accessor returning a fieldless enum: its variant as a number (see ENUM_IDS)
                            st.acc[key] = BV(z3.BitVec(f"acc.{short}!{next(_fresh)}", 16), 16)
                    rv = st.acc[key]
                elif re.search(r"slice::<impl \[\w+\]>::get$", cname) and callee.endswith("::get::<usize>") and len(args) == 2 and isinstance(args[0], Ref) and isinstance(args[1], BV):
                    # <[T]>::get(i): Some(&element) exactly when i < len (its contract); the element itself is arbitrary
                    key = ("len", args[0].obj, args[0].path)
                    if key not in st.acc:
                        st.acc[key] = fresh_of_type("usize", "len", False)
                    one, zero = z3.BitVecVal(1, 64), z3.BitVecVal(0, 64)
                    rv = Adt("Option::Some?", [Ref(("elem", next(_fresh)), (), mutable=False)],
                             discr=z3.If(z3.ULT(args[1].e, st.acc[key].e), one, zero))
                elif re.search(r"as Iterator>::position$", cname):
                    # Iterator::position over a slice iterator: None, or Some(index of an element) - the index is arbitrary here;
                    # specs that need `index < length` take it from the recorded event (position's contract)
                    d = z3.BitVec(f"position_found!{next(_fresh)}", 64)
                    st.cond.append(z3.ULE(d, z3.BitVecVal(1, 64)))
                    idx = BV(z3.BitVec(f"position_idx!{next(_fresh)}", 64), 64)
                    rv = Adt("Option::Some?", [idx], discr=d)
                    st.events.append(("position", cname, idx, None))
                elif short == "current_time_millis":
                    rv = BV(z3.BitVec(f"now!{len(st.clock)}!{next(_fresh)}", 64), 64)
                    if st.clock:
                        st.cond.append(z3.UGE(rv.e, st.clock[-1].e))
                    st.cond.append(z3.ULT(rv.e, z3.BitVecVal(1 << 62, 64)))
                    st.clock.append(rv)
                elif short == "from" and "as From<" in cname and isinstance(args[0], BV):
                    dty = fr.func.local_types.get(dest, "") if dest and re.fullmatch(r"_\d+", dest) else ""
                    a = args[0]
                    if dty in INT_TYPES and INT_TYPES[dty] >= a.width:
                        w = INT_TYPES[dty]
                        rv = BV(z3.ZeroExt(w - a.width, a.e) if w > a.width else a.e, w, dty[0] == "i", a.taint)
                    else:
                        rv = fresh_of_type(dty or "u64", "from", True)
                else:
                    target = self.resolve(cname) if (cname in self.inline or short in self.inline) else None
                    if target is None and self.inline_nested and "::" not in cname and cname in self.funcs \
                            and len(self.funcs[cname].blocks) <= 10 and cname != "current_time_millis":
                        target = self.funcs[cname]   # a small helper printed under its bare name (nested fn / free fn)
                    if target is None and self.inline_nested:
                        t2 = self.resolve(cname)
                        root = frames[0].func.name.split("::{closure")[0]
                        if t2 is not None and t2.name.startswith(root + "::") and "{closure" not in t2.name[len(root):]:
                            target = t2   # a helper fn nested in the function under exploration
                    if target is not None and len(frames) < 12:
                        loc = {}
                        for (l, ty), v in zip(target.args, args):
                            loc[l] = v
                        frames.append(Frame(target, loc, dest, ret_block))
                        block = "bb0"
                        continue
                    # unknown call: havoc result and every object reachable through a &mut argument
                    callee_f = self.resolve(cname)
                    for i, a in enumerate(args):
                        if isinstance(a, Ref):
                            mut = a.mutable
                            if not mut:
                                continue
                            if callee_f is not None and i < len(callee_f.args):
                                mut = callee_f.args[i][1].startswith("&mut")
                            elif i < len(args):
                                # unknown signature: look at how the reference was created is not tracked; be conservative
                                mut = True
                            if mut:
                                o = st.objs.get(a.obj, {})
                                for p in [p for p in o if p[:len(a.path)] == a.path]:
                                    del o[p]
                                st.events.append(("havoc", cname, a, None))
                    dty = None
                    if dest and re.fullmatch(r"_\d+", dest.strip()):
                        dty = fr.func.local_types.get(dest.strip())
                    rv = fresh_of_type(dty, "ret." + short, True) if dty else Opaque("ret " + short)
                    if isinstance(rv, Opaque) and dty and dty.strip().startswith("&"):
                        rv = Ref(("ret", short, next(_fresh)), ())
                if ret_block is None:
                    self._finish(st, "diverge:" + cname)
                    return
                st.events.append(("ret", cname, rv, None))
                if dest:
                    self.write_place(st, fr, dest, rv)
                block = ret_block
                continue
            self.unknown_constructs.append("terminator " + t[:70])
            self._finish(st, "cut:terminator")
            return


def _zext_width(e):
    """number of significant low bits if `e` is a zero-extension (or numeral), else its width"""
    e = z3.simplify(e)
    if z3.is_bv_value(e):
        return max(1, e.as_long().bit_length())
    if z3.is_app(e) and e.decl().kind() == z3.Z3_OP_ZERO_EXT:
        return e.arg(0).size()
    return e.size()


def umul_overflow(x, y, w):
    """unsigned multiplication overflow without a 2w-bit multiplier where possible (exact)"""
    xs, ys = z3.simplify(x), z3.simplify(y)
    if _zext_width(xs) + _zext_width(ys) <= w:
        return z3.BoolVal(False)
    for a, b in ((xs, ys), (ys, xs)):
        if z3.is_bv_value(b):
            c = b.as_long()
            if c == 0:
                return z3.BoolVal(False)
            return z3.UGT(a, z3.BitVecVal(((1 << w) - 1) // c, w))
    wide = z3.ZeroExt(w, x) * z3.ZeroExt(w, y)
    return z3.Extract(2 * w - 1, w, wide) != z3.BitVecVal(0, w)


class _ObjView:
    def __init__(self, obj, path):
        self.obj, self.path = obj, tuple(path)

    def __repr__(self):
        return f"view(obj{self.obj}{list(self.path)})"


class _RefDeref:
    def __init__(self, v_ref):
        self.v = v_ref


# ----------------------------------------------------------------------------
# Solver helpers (z3 decides; cvc5 re-checks every verdict through SMT-LIB text)
# ----------------------------------------------------------------------------
import subprocess
import tempfile
import time


def smt2_of(conds):
    s = z3.Solver()
    s.add(*conds)
    return "(set-logic ALL)\n" + s.to_smt2()


def cvc5_check(conds, timeout=60):
    txt = smt2_of(conds)
    with tempfile.NamedTemporaryFile("w", suffix=".smt2", delete=False) as f:
        f.write(txt)
        p = f.name
    out = "timeout"
    # second attempt: integer encoding that keeps the mod-2^k semantics (decides multiply/divide-by-constant
    # kernels that bit-blasting does not finish)
    attempts = (([], timeout),) if timeout <= 30 else ((["--solve-bv-as-int=sum"], min(90, timeout)), ([], timeout))
    for extra, tl in attempts:
        try:
            r = subprocess.run(["cvc5", "--lang", "smt2", "--tlimit", str(tl * 1000)] + extra + [p], capture_output=True, text=True, timeout=tl + 10)
            out = (r.stdout + r.stderr).strip()
        except subprocess.TimeoutExpired:
            out = "timeout"
        if out.split("\n")[0].strip() in ("sat", "unsat") or "(error" in out:
            break
    import os
    os.unlink(p)
    if "(error" in out:
        return "error: " + out[:200]
    first = out.split("\n")[0].strip() if out else "empty"
    return first


def _vars(e):
    out, seen, stack = [], set(), [e]
    while stack:
        x = stack.pop()
        if x.get_id() in seen:
            continue
        seen.add(x.get_id())
        if z3.is_const(x) and x.decl().kind() == z3.Z3_OP_UNINTERPRETED:
            out.append(x)
        stack.extend(x.children())
    return out


class Decider:
    def __init__(self):
        self.fail_closed = True
        self.queries = 0
        self.solver_s = 0.0
        self.log = []

    def check(self, conds, label, z3_ms=15000, cvc5_s=300, hv_scope=None):
        """-> ('sat', model) | ('unsat', None) | ('unknown', why).
        Both solvers are asked.  If both decide they must agree; if only one decides within its
        time limit its verdict stands (recorded in the log); a sat verdict needs a z3 model or is
        re-derived by z3 under the cvc5-free path only when z3 itself answers sat."""
        self.queries += 1
        t0 = time.time()
        conds = list(conds) + list(LEMMAS)
        s = z3.Solver()
        s.set("timeout", z3_ms)
        s.add(*conds)
        r = s.check()
        z = str(r)
        model = s.model() if r == z3.sat else None
        c = cvc5_check(conds, timeout=cvc5_s if z == "unknown" else 30)
        if c.startswith("timeout") or c in ("unknown", "empty"):
            c = "unknown"
        dt = time.time() - t0
        self.solver_s += dt
        self.log.append({"label": label, "z3": z, "cvc5": c, "s": round(dt, 3)})
        if c.startswith("error"):
            return "unknown", f"z3={z} cvc5={c}"
        if z in ("sat", "unsat") and c in ("sat", "unsat"):
            if z != c:
                return "unknown", f"solvers disagree: z3={z} cvc5={c}"
            if z == "sat" and hv_scope:
                hv = sorted({str(v) for cnd in hv_scope for v in _vars(cnd) if str(v).startswith("HV_")})
                if hv:
                    return "unknown", "the counterexample's operands are results of unmodelled calls (havoc): " + ", ".join(hv[:3])
            return z, model
        if z in ("sat", "unsat"):
            if z == "sat" and hv_scope:
                hv = sorted({str(v) for cnd in hv_scope for v in _vars(cnd) if str(v).startswith("HV_")})
                if hv:
                    return "unknown", "the counterexample's operands are results of unmodelled calls (havoc): " + ", ".join(hv[:3])
            return z, model
        if c == "unsat":
            return "unsat", None
        if c == "sat":
            # need a model: give z3 more time
            s.set("timeout", 120000)
            if s.check() == z3.sat:
                return "sat", s.model()
            return "unknown", "cvc5=sat but z3 produced no model"
        return "unknown", f"z3={z} cvc5={c}"


# ----------------------------------------------------------------------------
# Summaries: all paths of one call merged into ITE form (so that k-step sequences stay linear)
# ----------------------------------------------------------------------------

def _ite(c, a, b):
    if isinstance(a, BV) and isinstance(b, BV) and a.width == b.width:
        return BV(z3.If(c, a.e, b.e), a.width, a.signed, a.taint or b.taint)
    if isinstance(a, BoolV) and isinstance(b, BoolV):
        return BoolV(z3.If(c, a.e, b.e), a.taint or b.taint)
    if isinstance(a, (Tup, Adt)) and isinstance(b, (Tup, Adt)) and len(a.items) == len(b.items):
        items = [_ite(c, x, y) for x, y in zip(a.items, b.items)]
        return Tup(items) if isinstance(a, Tup) else Adt(a.name, items)
    return a if a is b else Opaque("ite-mismatch")


class Summary:
    def __init__(self):
        self.ret = None
        self.fields = {}      # path tuple -> Value (after the call)
        self.panic = z3.BoolVal(False)
        self.panic_msgs = []
        self.cut = []
        self.n_paths = 0
        self.clock = []
        self.unknown = []


def summarize(funcs, consts, fname, args, obj_fields, inline, self_index=0, assumptions=(), max_visits=1):
    """Symbolically execute `fname` with `args` (Values; args[self_index] may be None = reference to
    an object whose scalar fields are `obj_fields` {path: Value}).  Returns a Summary."""
    ex = Explorer(funcs, consts, inline=inline, max_visits=max_visits)
    f = funcs[fname]
    oid = ("self", next(_fresh))
    objs = {oid: dict(obj_fields)}
    a = list(args)
    if self_index is not None and self_index < len(f.args) and f.args[self_index][1].startswith("&") and a[self_index] is None:
        a[self_index] = Ref(oid, ())
    paths = ex.explore(fname, args=a, objs=objs, assumptions=assumptions)
    s = Summary()
    s.n_paths = len(paths)
    s.unknown = list(ex.unknown_constructs)
    s.solver_calls = ex.n_solver_calls
    base = len(assumptions)
    for p in paths:
        c = z3.And(*p.cond[base:]) if len(p.cond) > base else z3.BoolVal(True)
        if p.outcome == "return":
            if not getattr(s, "_first", False):
                s.ret = p.ret
                for k, v in p.objs.get(oid, {}).items():
                    s.fields[k] = v
                s._first = True
            else:
                s.ret = _ite(c, p.ret, s.ret) if p.ret is not None else s.ret
                newf = p.objs.get(oid, {})
                for k in set(newf) | set(s.fields):
                    old = s.fields.get(k, obj_fields.get(k))
                    nv = newf.get(k, obj_fields.get(k))
                    if old is None or nv is None:
                        s.fields[k] = nv if nv is not None else old
                    else:
                        s.fields[k] = _ite(c, nv, old)
            if len(p.clock) > len(s.clock):
                s.clock = p.clock
        elif p.outcome.startswith("panic"):
            s.panic = z3.Or(s.panic, c)
            s.panic_msgs.append(p.outcome)
        elif p.outcome in ("infeasible", "unreachable"):
            pass
        else:
            s.cut.append(p.outcome)
    return s
