import sys
sys.path.insert(0,'/verif/mirslice')
from mirslice import *
funcs, consts = parse_mir(open('/tmp/mir.txt').read())
def fn(suffix):
    c=[n for n in funcs if n.endswith(suffix)]
    assert len(c)==1, (suffix, c)
    return c[0]
INL={'get_expiration_time','is_expired','refresh_due','refresh_no_more'}
created=z3.BitVec('created',64); ttl=z3.BitVec('ttl',32)
F={(1,):BV(ttl,32),(2,):BV(created,64),(3,):BV(created+z3.ZeroExt(32,ttl)*1000,64),(4,):BV(created+z3.ZeroExt(32,ttl)*800,64)}
pre=[z3.ULT(created, z3.BitVecVal(1<<62,64))]
nows=[z3.BitVec('now%d'%i,64) for i in range(6)]
rets=[]
panic=z3.BoolVal(False)
state=F
import time; t0=time.time()
for i in range(6):
    s=summarize(funcs,consts,fn('::refresh_maybe'),[None,BV(nows[i],64)],state,INL)
    print(i, s.n_paths, s.cut, s.unknown[:3])
    rets.append(s.ret.e); panic=z3.Or(panic,s.panic)
    st=dict(state); st.update(s.fields); state=st
mono=[z3.ULE(nows[i],nows[i+1]) for i in range(5)]+[z3.ULT(n, z3.BitVecVal(1<<62,64)) for n in nows]
cnt=z3.Sum([z3.If(r,1,0) for r in rets])
d=Decider()
print(d.check(pre+mono+[cnt>4],'more than 4 refreshes'))
print(d.check(pre+mono+[panic],'panic'))
print(d.check(pre+mono+[cnt==4],'vacuity: 4 reachable')[0])
print(d.log, time.time()-t0)
