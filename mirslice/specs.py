"""Engine B queries, per property.  Each spec returns a result dict:
   {query, status(held|failed|inconclusive), detail, queries, nontrivial, solver_s, functions,
    assumptions, bound, witness(optional), known(optional), witness_class(optional)}
"""
import re
import time
import z3
from mirslice import (BV, BoolV, Tup, Adt, Ref, Opaque, Explorer, Decider, summarize, parse_mir, _fresh)

U64 = lambda n: z3.BitVecVal(n, 64)
TWO62 = U64(1 << 62)


class Ctx:
    def __init__(self, funcs, consts, tier, seed):
        self.funcs, self.consts, self.tier, self.seed = funcs, consts, tier, seed

    def fn(self, suffix, pred=None):
        c = [n for n in self.funcs if n.endswith(suffix) and (pred is None or pred(self.funcs[n]))]
        if len(c) != 1:
            raise LookupError(f"function {suffix!r}: {len(c)} candidates")
        return c[0]


def zx(e, to=64):
    return z3.ZeroExt(to - e.size(), e) if e.size() < to else e


class Q:
    """one query = a set of validity checks + a vacuity witness"""

    def __init__(self, name, functions, bound, assumptions=()):
        self.name, self.functions, self.bound = name, functions, bound
        self.assumptions = list(assumptions)
        self.d = Decider()
        self.fail = []
        self.unknown = []
        self.nontrivial = 0
        self.notes = []
        self.known = None
        self.witness_class = None
        self.t0 = time.time()

    def valid(self, pre, claim, label, taint=False, allow_havoc=False):
        """claim must hold under pre: pre & !claim unsat.  allow_havoc: the claim is ABOUT the verdict of an
        opaque call (path-order / guard queries), so havoc symbols in it are intended."""
        if taint:
            self.unknown.append(f"{label}: operand depends on an unmodelled call (havoc)")
            return
        # fail closed: a counterexample whose CLAIM operands are havoc values is not a verdict
        r, m = self.d.check(list(pre) + [z3.Not(claim)], label, hv_scope=None if allow_havoc else [claim])
        if r == "sat":
            self.fail.append((label, model_str(m)))
        elif r == "unknown":
            self.unknown.append(f"{label}: {m}")

    def unsat(self, conds, label):
        conds = list(conds)
        # by convention the last conjunct is the condition under test (panic condition, count bound, ...)
        r, m = self.d.check(conds, label, hv_scope=conds[-1:])
        if r == "sat":
            self.fail.append((label, model_str(m)))
        elif r == "unknown":
            self.unknown.append(f"{label}: {m}")

    def witness(self, conds, label):
        """vacuity guard: must be sat"""
        r, m = self.d.check(list(conds), "witness:" + label)
        if r == "sat":
            self.nontrivial += 1
        else:
            self.unknown.append(f"vacuous: witness {label!r} is {r} {m if r == 'unknown' else ''}")

    def result(self):
        if self.fail:
            status, detail = "failed", "; ".join(f"{l}: {m}" for l, m in self.fail[:3])
        elif self.unknown:
            status, detail = "inconclusive", "; ".join(self.unknown[:3])
        else:
            status, detail = "held", ""
        return {"engine": "B:mirslice/z3+cvc5", "query": self.name, "status": status, "detail": detail,
                "queries": self.d.queries, "nontrivial": self.nontrivial, "solver_s": round(self.d.solver_s, 2),
                "functions": self.functions, "assumptions": self.assumptions, "bound": self.bound,
                "notes": self.notes, "solver_log": self.d.log, "wall_s": round(time.time() - self.t0, 2),
                "known": self.known, "witness_class": self.witness_class,
                "witness": [{"check": l, "model": m} for l, m in self.fail]}


def model_str(m):
    if m is None:
        return ""
    items = []
    for d in m.decls():
        v = m[d]
        try:
            items.append(f"{d.name().split('!')[0]}={v.as_long()}")
        except Exception:
            items.append(f"{d.name().split('!')[0]}={v}")
    return ", ".join(sorted(set(items)))[:600]


# DnsRecord field indices (declaration order): entry 0, ttl 1, created 2, expires 3, refresh 4, new_name 5
TTL, CREATED, EXPIRES, REFRESH = (1,), (2,), (3,), (4,)
REC_INLINE = {"get_expiration_time", "is_expired", "refresh_due", "refresh_no_more", "expires_soon"}


def rec_fields(prefix="r"):
    created = z3.BitVec(prefix + "_created", 64)
    ttl = z3.BitVec(prefix + "_ttl", 32)
    f = {TTL: BV(ttl, 32), CREATED: BV(created, 64),
         EXPIRES: BV(created + zx(ttl) * 1000, 64), REFRESH: BV(created + zx(ttl) * 800, 64)}
    return f, created, ttl, [z3.ULT(created, TWO62)]


def check_layout(ctx, q):
    """The field indices above are read off the MIR of DnsRecord::new (aggregate order)."""
    f = ctx.funcs[ctx.fn("::new", lambda f: f.ret == "DnsRecord")]
    txt = " ".join(s for b in f.blocks.values() for s in b[0])
    m = re.search(r"DnsRecord \{ (.*?) \}", txt)
    if not m:
        q.unknown.append("layout: DnsRecord aggregate not found in DnsRecord::new")
        return False
    names = [x.split(":")[0].strip() for x in m.group(1).split(", ")]
    if names != ["entry", "ttl", "created", "expires", "refresh", "new_name"]:
        q.unknown.append("layout: DnsRecord field order changed: " + ",".join(names))
        return False
    return True


# ---------------------------------------------------------------------------------------------
# C11 / C05 / C10: record lifetime arithmetic (summaries)
# ---------------------------------------------------------------------------------------------

def c11_new_lifetime(ctx):
    q = Q("c11_new_lifetime", ["DnsRecord::new", "get_expiration_time"],
          "every ttl: u32, every clock reading < 2^62 (full machine width)", ["clock < 2^62"])
    if not check_layout(ctx, q):
        return q.result()
    name = ctx.fn("::new", lambda f: f.ret == "DnsRecord")
    ttl = z3.BitVec("ttl", 32)
    ex = Explorer(ctx.funcs, ctx.consts, inline={"get_expiration_time"})
    paths = ex.explore(name, args=[None, None, None, BV(ttl, 32)])
    rets = [p for p in paths if p.outcome == "return"]
    panics = [p for p in paths if p.outcome.startswith("panic")]
    if not rets or ex.unknown_constructs:
        q.unknown.append("translation: " + "; ".join(ex.unknown_constructs[:3]) if ex.unknown_constructs else "no returning path")
    for p in panics:
        q.unsat(p.cond, "DnsRecord::new panics (" + p.outcome[6:40] + ")")
    for p in rets:
        r = p.ret
        if not isinstance(r, Adt) or len(r.items) != 6 or not p.clock:
            q.unknown.append("return value of DnsRecord::new not an aggregate of 6 fields")
            continue
        now = p.clock[0].e
        t, c, e, rf = r.items[1], r.items[2], r.items[3], r.items[4]
        q.valid(p.cond, t.e == ttl, "ttl stored", t.taint)
        q.valid(p.cond, c.e == now, "created == clock", c.taint)
        q.valid(p.cond, e.e == now + zx(ttl) * 1000, "expires == created + 1000*ttl", e.taint)
        q.valid(p.cond, rf.e == now + zx(ttl) * 800, "refresh == created + 800*ttl", rf.taint)
        q.witness(p.cond + [ttl == 4500], "ttl=4500")
        q.witness(p.cond + [ttl == 0xFFFFFFFF], "ttl=max")
    return q.result()


def _pred(ctx, q, suffix, now, fields, pre, definition, label, selftype="&DnsRecord"):
    name = ctx.fn(suffix, lambda f: f.args and f.args[0][1] == selftype)
    s = summarize(ctx.funcs, ctx.consts, name, [None, BV(now, 64)], fields, REC_INLINE)
    if s.unknown or s.cut or s.ret is None:
        q.unknown.append(f"{label}: translation incomplete {s.unknown[:2]} {s.cut[:2]}")
        return
    q.unsat(pre + [s.panic], label + " panics")
    q.valid(pre, s.ret.e == definition, label + " == definition", s.ret.taint)
    q.witness(pre + [s.ret.e], label + " true")
    q.witness(pre + [z3.Not(s.ret.e)], label + " false")


def c11_predicates(ctx):
    q = Q("c11_predicates", ["DnsRecord::is_expired", "DnsRecord::expires_soon", "DnsRecord::refresh_due", "DnsRecord::halflife_passed"],
          "every record state DnsRecord::new can produce (created < 2^62, ttl: u32) and every now < 2^62", ["clock < 2^62"])
    if not check_layout(ctx, q):
        return q.result()
    f, created, ttl, pre = rec_fields()
    now = z3.BitVec("now", 64)
    pre = pre + [z3.ULT(now, TWO62)]
    life = zx(ttl) * 1000
    _pred(ctx, q, "::is_expired", now, f, pre, z3.UGE(now, created + life), "is_expired")
    _pred(ctx, q, "::expires_soon", now, f, pre, z3.UGE(now + 1000, created + life), "expires_soon")
    _pred(ctx, q, "::refresh_due", now, f, pre, z3.UGE(now, created + zx(ttl) * 800), "refresh_due")
    _pred(ctx, q, "::halflife_passed", now, f, pre, z3.UGT(now, created + zx(ttl) * 500), "halflife_passed")
    return q.result()


def _schedule(ctx, q, fields, pre, k, tag):
    """k calls of refresh_maybe at non-decreasing instants -> (rets, states, nows, panic)"""
    name = ctx.fn("::refresh_maybe")
    nows = [z3.BitVec(f"{tag}now{i}", 64) for i in range(k)]
    state = dict(fields)
    rets, states, panic = [], [dict(state)], z3.BoolVal(False)
    for i in range(k):
        s = summarize(ctx.funcs, ctx.consts, name, [None, BV(nows[i], 64)], state, REC_INLINE)
        if s.unknown or s.cut or s.ret is None:
            q.unknown.append(f"refresh_maybe step {i}: translation incomplete {s.unknown[:2]} {s.cut[:2]}")
            return None
        rets.append(s.ret.e)
        panic = z3.Or(panic, s.panic)
        st = dict(state)
        st.update(s.fields)
        state = st
        states.append(dict(state))
    mono = [z3.ULE(nows[i], nows[i + 1]) for i in range(k - 1)] + [z3.ULT(n, TWO62) for n in nows]
    return rets, states, nows, panic, pre + mono


def c11_refresh_schedule(ctx):
    k = 6 if ctx.tier == "quick" else 8
    q = Q("c11_refresh_schedule", ["DnsRecord::refresh_maybe", "DnsRecord::is_expired", "DnsRecord::refresh_due", "DnsRecord::refresh_no_more", "get_expiration_time"],
          f"(a) {k} consecutive calls at arbitrary non-decreasing instants from the state DnsRecord::new produces (wake-ups may skip marks); (b) one call from EVERY state with refresh at one of the five marks and an arbitrary (possibly shortened) expiry: the inductive step, so (b) covers call sequences of any length; every ttl: u32, created < 2^62, instants < 2^62",
          ["clock < 2^62 and non-decreasing"])
    if not check_layout(ctx, q):
        return q.result()
    f, created, ttl, pre = rec_fields()
    r = _schedule(ctx, q, f, pre, k, "")
    if r is None:
        return q.result()
    rets, states, nows, panic, pre2 = r
    cnt = z3.Sum([z3.If(x, 1, 0) for x in rets])
    q.unsat(pre2 + [panic], "refresh_maybe panics")
    q.unsat(pre2 + [cnt > 4], "more than 4 refreshes in one lifetime")
    q.witness(pre2 + [cnt == 4], "four refreshes reachable")
    q.witness(pre2 + [rets[0], z3.Not(rets[1]), rets[2]], "wake-up between marks")
    for i in range(k):
        q.valid(pre2, z3.Implies(rets[i], z3.ULT(nows[i], created + zx(ttl) * 1000)), f"call {i}: never a refresh at or after expiry")
    # (b) inductive step from an arbitrary reachable-shaped state
    marks = {p: created + zx(ttl) * (10 * p) for p in (80, 85, 90, 95, 100)}
    sel = z3.BitVec("mark_sel", 8)
    refresh0 = z3.If(sel == 0, marks[80], z3.If(sel == 1, marks[85], z3.If(sel == 2, marks[90], z3.If(sel == 3, marks[95], marks[100]))))
    exp0 = z3.BitVec("expires0", 64)
    st0 = {TTL: BV(ttl, 32), CREATED: BV(created, 64), EXPIRES: BV(exp0, 64), REFRESH: BV(refresh0, 64)}
    now = z3.BitVec("now", 64)
    s = summarize(ctx.funcs, ctx.consts, ctx.fn("::refresh_maybe"), [None, BV(now, 64)], st0, REC_INLINE)
    if s.unknown or s.cut or s.ret is None:
        q.unknown.append("refresh_maybe: translation incomplete")
        return q.result()
    pre3 = pre + [z3.ULT(now, TWO62), z3.ULE(sel, 4), z3.ULE(exp0, created + zx(ttl) * 1000)]
    after = dict(st0)
    after.update(s.fields)
    due = z3.And(z3.UGE(now, refresh0), z3.ULT(now, exp0))
    q.unsat(pre3 + [s.panic], "step: refresh_maybe panics")
    q.valid(pre3, s.ret.e == due, "step: refreshed <=> due and not expired")
    nxt = z3.Or(*[z3.And(sel == a, after[REFRESH].e == marks[b]) for a, b in ((0, 85), (1, 90), (2, 95), (3, 100), (4, 100))])
    q.valid(pre3 + [ttl != 0], z3.Implies(s.ret.e, nxt), "step: a refresh moves the schedule to the next mark (80>85>90>95>expiry)")
    q.valid(pre3, z3.Implies(z3.Not(s.ret.e), after[REFRESH].e == refresh0), "step: no refresh leaves the schedule unchanged")
    q.valid(pre3, z3.And(after[TTL].e == ttl, after[CREATED].e == created, after[EXPIRES].e == exp0), "step: ttl, created, expires are never touched")
    q.witness(pre3 + [s.ret.e, sel == 3], "step: refresh at the 95% mark")
    return q.result()


def c11_reset_restarts(ctx):
    q = Q("c11_reset_restarts", ["DnsRecord::reset_ttl", "DnsRecord::refresh_maybe", "get_expiration_time"],
          "2 refresh calls, then reset_ttl from a fresh copy (any ttl2: u32, created2 < 2^62), then 5 more calls; all values full width",
          ["clock < 2^62 and non-decreasing"])
    if not check_layout(ctx, q):
        return q.result()
    f, created, ttl, pre = rec_fields()
    r = _schedule(ctx, q, f, pre, 2, "a")
    if r is None:
        return q.result()
    rets1, states1, nows1, panic1, pre1 = r
    f2, c2, t2, pre_o = rec_fields("o")
    name = ctx.fn("::reset_ttl", lambda fn: fn.args and fn.args[0][1] == "&mut DnsRecord")
    ex = Explorer(ctx.funcs, ctx.consts, inline=REC_INLINE)
    o_self, o_other = ("self", next(_fresh)), ("other", next(_fresh))
    objs = {o_self: dict(states1[-1]), o_other: dict(f2)}
    paths = ex.explore(name, args=[Ref(o_self, ()), Ref(o_other, ())], objs=objs)
    pre_all = pre1 + pre_o
    rp = [p for p in paths if p.outcome == "return"]
    if ex.unknown_constructs or not rp:
        q.unknown.append("reset_ttl: translation incomplete " + "; ".join(ex.unknown_constructs[:2]))
        return q.result()
    for p in paths:
        if p.outcome.startswith("panic"):
            q.unsat(pre_all + p.cond, "reset_ttl panics")
    life2 = c2 + zx(t2) * 1000
    restart_seen = []
    for p in rp:
        o = p.objs[o_self]
        q.valid(pre_all + p.cond, o[TTL].e == t2, "reset: ttl taken from the fresh copy")
        q.valid(pre_all + p.cond, o[CREATED].e == c2, "reset: created taken from the fresh copy")
        q.valid(pre_all + p.cond, o[EXPIRES].e == life2, "reset: expires == created2 + 1000*ttl2")
        q.valid(pre_all + p.cond, o[REFRESH].e == z3.If(z3.UGT(t2, 1), c2 + zx(t2) * 800, life2),
                "reset: schedule restarts at 80% of the new lifetime (expiry for ttl <= 1)")
        q.witness(pre_all + p.cond, "reset path")
        # the schedule runs again from the new TTL
        if z3.is_true(z3.simplify(z3.BoolVal(True))):
            st = {TTL: o[TTL], CREATED: o[CREATED], EXPIRES: o[EXPIRES], REFRESH: o[REFRESH]}
            r2 = _schedule(ctx, q, st, pre_all + p.cond, 5, "b")
            if r2 is None:
                continue
            rets2, states2, nows2, panic2, pre2 = r2
            link = [z3.ULE(nows1[-1], nows2[0])]
            cnt2 = z3.Sum([z3.If(x, 1, 0) for x in rets2])
            q.unsat(pre2 + link + [cnt2 > 4], "more than 4 refreshes after a reset")
            q.unsat(pre2 + link + [panic2], "refresh_maybe panics after a reset")
            if z3.is_true(z3.simplify(z3.BoolVal(True))):
                r_w, _ = q.d.check(pre2 + link + [rets1[0], cnt2 == 4], "witness: full schedule again after a reset")
                if r_w == "sat":
                    restart_seen.append(1)
    if restart_seen:
        q.nontrivial += 1
    else:
        q.unknown.append("vacuous: no reset path lets the full schedule run again")
    return q.result()


def c10_update_ttl(ctx):
    q = Q("c10_update_ttl", ["DnsRecord::update_ttl", "DnsRecord::halflife_passed", "get_expiration_time"],
          "every record state (created < 2^62, ttl: u32) and every now < 2^62 for which the record is listed as a known answer (halflife not passed)",
          ["clock < 2^62", "update_ttl is only applied to records get_known_answers returned for the same `now`"])
    if not check_layout(ctx, q):
        return q.result()
    f, created, ttl, pre = rec_fields()
    now = z3.BitVec("now", 64)
    pre = pre + [z3.ULT(now, TWO62)]
    hl = summarize(ctx.funcs, ctx.consts, ctx.fn("::halflife_passed"), [None, BV(now, 64)], f, REC_INLINE)
    up = summarize(ctx.funcs, ctx.consts, ctx.fn("::update_ttl"), [None, BV(now, 64)], f, REC_INLINE)
    if hl.unknown or up.unknown or hl.cut or up.cut or hl.ret is None:
        q.unknown.append(f"translation incomplete {hl.unknown[:2]} {up.unknown[:2]}")
        return q.result()
    listed = pre + [z3.Not(hl.ret.e)]
    new_ttl = up.fields.get(TTL, f[TTL]).e
    q.unsat(listed + [up.panic], "update_ttl underflows for a listed known answer")
    q.valid(listed, z3.UGE(zx(new_ttl) * 2, zx(ttl)), "remaining TTL written into the query is at least half of the original")
    e = zx(ttl) - zx(new_ttl)   # whole seconds taken off
    el = now - created
    q.valid(listed + [z3.UGT(now, created)], z3.ULE(new_ttl, ttl), "remaining TTL never exceeds the original")
    q.valid(listed + [z3.UGT(now, created)], z3.ULE(e * 1000, el), "no more than the elapsed whole seconds are taken off")
    if ctx.tier == "thorough":
        q.valid(listed + [z3.UGT(now, created)], z3.ULT(el, (e + 1) * 1000), "every elapsed whole second is taken off")
    q.valid(listed + [z3.ULE(now, created)], new_ttl == ttl, "a record not older than `now` keeps its TTL")
    q.witness(listed + [new_ttl != ttl], "aged record listed")
    q.witness(pre + [hl.ret.e], "record past half life exists (not listed)")
    return q.result()


def c05_reset_restores(ctx):
    q = Q("c05_reset_restores", ["DnsRecord::reset_ttl", "DnsRecord::set_expire", "DnsRecord::is_expired"],
          "a record whose expiry was shortened to any instant (verify / cache-flush), then reset from a fresh copy: all values full width",
          ["clock < 2^62"])
    if not check_layout(ctx, q):
        return q.result()
    f, created, ttl, pre = rec_fields()
    short = z3.BitVec("shortened_to", 64)
    f = dict(f)
    se = summarize(ctx.funcs, ctx.consts, ctx.fn("::set_expire", lambda fn: fn.args and fn.args[0][1] == "&mut DnsRecord"),
                   [None, BV(short, 64)], f, REC_INLINE)
    if se.unknown or se.cut:
        q.unknown.append("set_expire: translation incomplete")
        return q.result()
    st = dict(f)
    st.update(se.fields)
    q.valid(pre, st[EXPIRES].e == short, "set_expire stores the requested instant")
    now = z3.BitVec("now", 64)
    ie = summarize(ctx.funcs, ctx.consts, ctx.fn("::is_expired", lambda fn: fn.args and fn.args[0][1] == "&DnsRecord"),
                   [None, BV(now, 64)], st, REC_INLINE)
    q.valid(pre, ie.ret.e == z3.UGE(now, short), "a shortened record is reported expired exactly from that instant on")
    f2, c2, t2, pre_o = rec_fields("o")
    name = ctx.fn("::reset_ttl", lambda fn: fn.args and fn.args[0][1] == "&mut DnsRecord")
    ex = Explorer(ctx.funcs, ctx.consts, inline=REC_INLINE)
    o_self, o_other = ("self", next(_fresh)), ("other", next(_fresh))
    paths = ex.explore(name, args=[Ref(o_self, ()), Ref(o_other, ())], objs={o_self: dict(st), o_other: dict(f2)})
    for p in paths:
        if p.outcome == "return":
            q.valid(pre + pre_o + p.cond, p.objs[o_self][EXPIRES].e == c2 + zx(t2) * 1000,
                    "an answer restores the full lifetime: expires == created2 + 1000*ttl2")
            q.witness(pre + pre_o + p.cond + [z3.ULT(short, c2 + zx(t2) * 1000)], "restored later than the shortened expiry")
    return q.result()


def c10_known_answer_filter(ctx):
    q = Q("c10_known_answer_filter", ["DnsCache::get_known_answers::{closure} (the filter)", "DnsRecord::is_unique", "DnsRecord::halflife_passed", "get_expiration_time"],
          "every cached record state (created < 2^62, ttl: u32, flush flag) and every now < 2^62", ["clock < 2^62", "get_record() is a pure accessor of the boxed record"])
    if not check_layout(ctx, q):
        return q.result()
    cands = [n for n in ctx.funcs if "::get_known_answers::{closure#" in n and ctx.funcs[n].ret == "bool"]
    if len(cands) != 1:
        q.unknown.append(f"filter closure: {len(cands)} candidates")
        return q.result()
    f = ctx.funcs[cands[0]]
    now = z3.BitVec("now", 64)
    env = ("env", 0)
    ex = Explorer(ctx.funcs, ctx.consts, inline=REC_INLINE | {"is_unique", "halflife_passed"})
    body = " ".join(x for b in f.blocks.values() for x in b[0]) + " ".join(f.debug.values())
    by_ref = "((*_1).0: &u64)" in body
    objs = {env: {(0,): Ref(("nowcell", 2), (), mutable=False)}, ("nowcell", 2): {(): BV(now, 64)}} if by_ref else {env: {(0,): BV(now, 64)}}
    paths = ex.explore(f.name, args=[Ref(env, ()), None], objs=objs)
    rets = [p for p in paths if p.outcome == "return"]
    if ex.unknown_constructs or not rets:
        q.unknown.append("closure not translated: " + "; ".join(ex.unknown_constructs[:3]))
        return q.result()
    def rec_pre(p):
        out = [z3.ULT(now, TWO62)]
        for o, fl in p.objs.items():
            if isinstance(o, tuple) and o and o[0] == "record-of" and CREATED in fl:
                out.append(z3.ULT(fl[CREATED].e, TWO62))
        return out
    for i, p in enumerate(paths):
        if p.outcome.startswith("panic"):
            q.unsat(p.cond + rec_pre(p), "filter panics: " + p.outcome[6:40])
    for i, p in enumerate(rets):
        recs = [o for o in p.objs if isinstance(o, tuple) and o and o[0] == "record-of"]
        if len(recs) != 1:
            q.unknown.append(f"path {i}: the filter looks at {len(recs)} record objects")
            continue
        o = p.objs[recs[0]]
        flush = o.get((0, 3))      # entry.cache_flush  (DnsEntry: name 0, ty 1, class 2, cache_flush 3)
        created, ttl = o.get(CREATED), o.get(TTL)
        pre = p.cond + [z3.ULT(now, TWO62)] + ([z3.ULT(created.e, TWO62)] if created is not None else [])
        if flush is None:
            q.unknown.append(f"path {i}: cache_flush not read")
            continue
        if created is None or ttl is None:
            # legitimate only on the path where the flush flag alone decides (unique record)
            r0, _ = q.d.check(pre + [z3.Not(flush.e)], f"classify: path {i}: is the shared-record case excluded?")
            if r0 == "unsat":
                q.valid(pre, z3.Not(p.ret.e), f"path {i}: a unique (cache-flush) record is never listed", p.ret.taint)
            else:
                q.fail.append((f"path {i}: a shared record is listed or not without looking at its created/ttl (half-life)",
                               "fields read: " + ",".join(str(k) for k in sorted(o.keys(), key=str))))
            continue
        listed = z3.And(z3.Not(flush.e), z3.ULE(now, created.e + zx(ttl.e) * 500))
        q.valid(pre, p.ret.e == listed, f"path {i}: listed <=> shared record with at least half of its lifetime left", p.ret.taint)
        q.witness(pre + [p.ret.e], f"path {i}: listed")
        q.witness(pre + [z3.Not(p.ret.e)], f"path {i}: past half life")
    return q.result()


def c05_verify_shortens_only(ctx):
    q = Q("c05_verify_shortens_only", ["DnsCache::service_verify_queries", "DnsRecordExt::set_expire_sooner", "DnsRecordExt::get_expire", "DnsRecord::set_expire"],
          "every record state and every requested deadline (u64 x u64); first iteration of each loop of service_verify_queries",
          ["get_record()/get_record_mut() are pure accessors of the boxed record", "unmodelled calls are havoc"])
    if not check_layout(ctx, q):
        return q.result()
    # (a) the primitive: expires' == min(expires, deadline), nothing else touched
    name = "DnsRecordExt::set_expire_sooner"
    if name not in ctx.funcs:
        q.unknown.append("default method DnsRecordExt::set_expire_sooner not found")
        return q.result()
    dl = z3.BitVec("deadline", 64)
    ex = Explorer(ctx.funcs, ctx.consts, inline={"get_expire", "get_expire_time", "set_expire", "DnsRecordExt::get_expire"})
    so = ("selfobj", 0)
    paths = ex.explore(name, args=[Ref(so, ()), BV(dl, 64)], objs={so: {}})
    rets = [p for p in paths if p.outcome == "return"]
    if ex.unknown_constructs or not rets:
        q.unknown.append("set_expire_sooner not translated: " + "; ".join(ex.unknown_constructs[:3]))
    for i, p in enumerate(rets):
        recs = [o for o in p.objs if isinstance(o, tuple) and o and o[0] == "record-of"]
        if len(recs) != 1 or EXPIRES not in p.objs[recs[0]]:
            q.unknown.append(f"set_expire_sooner path {i}: expected exactly one record object with an expiry")
            continue
        after = p.objs[recs[0]][EXPIRES]
        before = [v for v in z3_vars(z3.And(*p.cond)) if ".3" in str(v)] if p.cond else []
        if len(before) != 1:
            q.unknown.append(f"set_expire_sooner path {i}: cannot identify the old expiry")
            continue
        old = before[0]
        q.valid(p.cond, after.e == z3.If(z3.ULT(dl, old), dl, old), f"set_expire_sooner path {i}: expires' == min(expires, deadline) (never later)", after.taint)
        q.witness(p.cond, f"set_expire_sooner path {i}")
    # (b) service_verify_queries only ever shortens, and with the requested deadline, on SRV and on address records
    fname = ctx.fn("::service_verify_queries")
    dl2 = z3.BitVec("expire_at", 64)
    opt = Adt("std::option::Option::<u64>::Some", [BV(dl2, 64)])
    ex = Explorer(ctx.funcs, ctx.consts, max_paths=1500)
    paths = ex.explore(fname, args=[None, None, opt])
    sites = {}
    for p in paths:
        for e in p.events:
            if e[0] == "call" and e[1].split("::")[-1].startswith("set_expire"):
                short = e[1].split("::")[-1]
                sites.setdefault(e[3], set()).add(short)
                if short != "set_expire_sooner":
                    q.fail.append((f"verify writes an expiry with {short} (can lengthen a lifetime)", f"call site {e[3]}"))
                else:
                    v = e[2][1]
                    if not isinstance(v, BV) or v.taint:
                        q.unknown.append(f"deadline operand at {e[3]} not resolved")
                    else:
                        q.valid(p.cond, v.e == dl2, f"site {e[3][1]}: the deadline applied is the requested one")
    if len(sites) < 2:
        q.unknown.append(f"expected expiry updates on SRV and on address records, found {len(sites)} call site(s)")
    else:
        q.nontrivial += len(sites)
    # with None nothing may be shortened
    ex2 = Explorer(ctx.funcs, ctx.consts, max_paths=1500)
    for p in ex2.explore(fname, args=[None, None, Adt("std::option::Option::<u64>::None", [])]):
        if any(e[0] == "call" and e[1].split("::")[-1].startswith("set_expire") for e in p.events):
            q.fail.append(("a repeating verify (no deadline) changes an expiry", "expire_at=None"))
            break
    return q.result()


def c11_addr_lookup_lowercase(ctx):
    q = Q("c11_addr_lookup_lowercase", ["DnsCache::refresh_due_hosts", "DnsCache::get_addr", "DnsCache::get_addresses_for_host", "DnsCache::add_or_update (key discipline of the address table)"],
          "every explored path of each function to its first look-up in the address table (loops: first pass, opaque iterators)",
          ["calls are opaque; value provenance only: which call produced the String used as key"])
    T = "HashMap::<String, Vec<DnsRecordIntf>>::"
    # field index of `addr` in DnsCache (declaration order, read off the aggregate in DnsCache::new)
    nf = [n for n in ctx.funcs if n.endswith("::new") and ctx.funcs[n].ret in ("DnsCache", "dns_cache::DnsCache", "Self")]
    txt = " ".join(x for n in nf for b in ctx.funcs[n].blocks.values() for x in b[0])
    m = re.search(r"DnsCache \{ (.*?) \}", txt)
    names = [x.split(":")[0].strip() for x in m.group(1).split(", ")] if m else []
    if "addr" not in names:
        q.unknown.append("layout: DnsCache aggregate with field addr not found in DnsCache::new")
        return q.result()
    k = names.index("addr")

    def first_lookup(fname, methods):
        f = ctx.funcs[ctx.fn(fname)]
        ex = Explorer(ctx.funcs, ctx.consts, max_paths=1500)
        for p in ex.explore(f.name):
            for c in p.events:
                if not (c[0] == "call" and any(c[1] == T + m_ for m_ in methods) and len(c[2]) >= 2):
                    continue
                recv, key = c[2][0], c[2][1]
                if not (isinstance(recv, Ref) and recv.path[-1:] == (k,)):
                    continue   # a look-up in one of the other tables
                v = _deref_val(p, key) if isinstance(key, Ref) else key
                prod = (_producer(p, v) if v is not None else None) or _producer(p, key)
                return prod[1] if prod else "no call (a value passed in or taken from an iterator)"
        return None
    disc = first_lookup("::add_or_update", ["entry"])
    if disc is None or not disc.endswith("to_lowercase"):
        q.unknown.append(f"add_or_update no longer files address records under the lower-cased owner name (key produced by {disc}): the key discipline this query assumes changed")
        return q.result()
    for fname, what in (("::refresh_due_hosts", "addresses of browsed instances are refreshed"), ("::get_addr", "addresses of a resolved service are read"),
                        ("::get_addresses_for_host", "addresses of a resolved host name are read")):
        try:
            prod = first_lookup(fname, ["get", "get_mut"])
        except LookupError as e:
            q.unknown.append(str(e))
            continue
        if prod is None:
            q.unknown.append(f"{fname[2:]}: look-up in the address table not reached")
        elif not prod.endswith("to_lowercase"):
            q.fail.append((f"{fname[2:]}: the address table is keyed by lower-cased host names, but the look-up by which {what} uses the name as written in the SRV record: "
                           "hosts with an upper-case letter are never found", f"key produced by {prod}"))
        else:
            q.nontrivial += 1
    return q.result()


def c11_hostname_refresh_guard(ctx):
    q = Q("c11_hostname_refresh_guard", ["DnsCache::refresh_due_hostname_resolutions::{closure} (which address records of a resolved host name are re-queried)",
                                         "DnsRecord::is_expired", "DnsRecord::refresh_due", "DnsRecord::refresh_no_more", "get_expiration_time"],
          "every record state (created < 2^62, ttl: u32, expires, refresh: u64) and every now < 2^62; every path of the closure",
          ["clock < 2^62", "get_record_mut() is a pure accessor of the boxed record", "to_owned / downcast / address are opaque",
           "record invariant: expires <= created + 1000*ttl (an expiry is only ever shortened)"])
    if not check_layout(ctx, q):
        return q.result()
    cands = [n for n in ctx.funcs if n.endswith("::refresh_due_hostname_resolutions::{closure#0}")]
    if len(cands) != 1:
        q.unknown.append(f"refresh closure: {len(cands)} candidates")
        return q.result()
    f = ctx.funcs[cands[0]]
    now = z3.BitVec("now", 64)
    env = ("env", 0)
    m = re.search(r"\(\(\*_1\)\.(\d+): (&?)u64\)", f.debug.get("now", ""))
    if not m:
        q.unknown.append("capture `now` of the refresh closure not found")
        return q.result()
    k, by_ref = int(m.group(1)), m.group(2) == "&"
    objs = {env: {(k,): Ref(("nowcell", 3), (), mutable=False)}, ("nowcell", 3): {(): BV(now, 64)}} if by_ref else {env: {(k,): BV(now, 64)}}
    ex = Explorer(ctx.funcs, ctx.consts, inline=REC_INLINE | {"refresh_no_more"}, max_paths=400)
    paths = ex.explore(f.name, args=[Ref(env, ()), None], objs=objs)
    n_some = n_none = 0
    for i, p in enumerate(paths):
        recs = [o for o in p.objs if isinstance(o, tuple) and o and o[0] == "record-of"]
        pre = p.cond + [z3.ULT(now, TWO62)]
        for o in recs:
            if CREATED in p.objs[o]:
                pre.append(z3.ULT(p.objs[o][CREATED].e, TWO62))
        if p.outcome.startswith("panic") and "unwrap" not in p.outcome:
            q.unsat(pre, "refresh guard panics: " + p.outcome[6:40])
            continue
        if p.outcome != "return" or not isinstance(p.ret, Adt):
            continue
        if p.ret.name.endswith("None"):
            n_none += 1
            continue
        n_some += 1
        if len(recs) != 1:
            q.unknown.append(f"path {i}: the guard looks at {len(recs)} record objects")
            continue
        init = ex_initial_fields(p, recs[0])
        if EXPIRES[0] not in init and REFRESH[0] in init:
            q.fail.append(("an address record of a resolved host name is re-queried without looking at its expiry: a record past its TTL is refreshed (never after expiry)", f"path {i}"))
            continue
        if EXPIRES[0] not in init or REFRESH[0] not in init:
            q.unknown.append(f"path {i}: expires/refresh of the record not read before the decision")
            continue
        exp0, ref0 = init[EXPIRES[0]], init[REFRESH[0]]
        o_ = p.objs[recs[0]]
        if CREATED in o_ and TTL in o_:
            # representation invariant of a cached record: its expiry is only ever shortened (flush, verify), never extended
            # beyond created + 1000*ttl (decided by c11_new_lifetime / c11_reset_restarts / c11_cache_flush_rule / c05_verify_shortens_only)
            pre = pre + [z3.ULE(exp0, o_[CREATED].e + zx(o_[TTL].e) * 1000)]
        q.valid(pre, z3.ULT(now, exp0), f"path {i}: an expired address record is never re-queried (never after expiry)")
        q.valid(pre, z3.UGE(now, ref0), f"path {i}: an address record is re-queried only when its refresh mark is due")
        after = p.objs[recs[0]].get(REFRESH)
        if after is None:
            q.fail.append(("a re-queried record keeps its refresh mark: it is due again at every wake-up (not once per mark)", f"path {i}"))
        else:
            q.valid(pre, z3.UGT(after.e, now), f"path {i}: after the re-query the record is not due again at once", after.taint)
        q.witness(pre, f"path {i}: re-query reachable")
    if n_some == 0 or n_none == 0:
        q.unknown.append(f"expected re-query and skip paths (found {n_some}/{n_none})")
    return q.result()


def ex_initial_fields(p, rec):
    """(expires, refresh) symbols the path read from the record BEFORE any write: the executor names a first read
    `obj<object>.<field>`; later writes replace the dict entry but the path condition still mentions the first symbol"""
    names = {}
    for c in p.cond:
        for v in _vars_of(c):
            s_ = str(v)
            mm = re.match(r"objrecord_of[\w.]*\.(\d+)!", s_)
            if mm:
                names[int(mm.group(1))] = v
    return names


def _vars_of(e):
    out, todo, seen = [], [e], set()
    while todo:
        x = todo.pop()
        if x.get_id() in seen:
            continue
        seen.add(x.get_id())
        if z3.is_const(x) and x.decl().kind() == z3.Z3_OP_UNINTERPRETED:
            out.append(x)
        todo.extend(x.children())
    return out


def c11_cache_flush_rule(ctx):
    q = Q("c11_cache_flush_rule", ["DnsCache::add_or_update::{closure#0} (the cache-flush rule applied to each cached record)"],
          "every path of the closure; class, now, created, expires: full width; get_class/get_type/get_created/get_expire are pure accessors of the record they are called on",
          ["clock < 2^62", "accessors of a boxed record are pure", "RRType comparison and the DnsAddress downcast are opaque (both outcomes explored)"])
    cands = [n for n in ctx.funcs if n.endswith("::add_or_update::{closure#0}")]
    env, rec = ("env", 0), ("cached", 0)
    cls, now, rty = z3.BitVec("incoming_class", 16), z3.BitVec("now", 64), z3.BitVec("incoming_type", 16)
    loop_form = False
    if len(cands) == 1 and "IterMut" not in " ".join(t for _, t in ctx.funcs[cands[0][:-len("::{closure#0}")]].blocks.values() if "::next(" in t):
        f = ctx.funcs[cands[0]]
        objs = {env: {(0, "*"): BV(cls, 16), (1, "*"): BV(rty, 16), (2, "*"): BV(now, 64)}, rec: {}}
        # captured references: (*_1).0: &u16 -> deref gives the class; model the reference cells directly
        objs[env][(0,)] = Ref(env, (0, "*"))
        objs[env][(1,)] = Ref(env, (1, "*"), mutable=False)
        objs[env][(2,)] = Ref(env, (2, "*"))
        body = " ".join(ctx.funcs[cands[0]].debug.values())
        if "((*_1).1: &dns_parser::RRType)" not in body and "((*_1).1: &RRType)" not in body:
            q.unknown.append("capture layout of the flush closure changed (field 1 is not the incoming record's type)")
        ex = Explorer(ctx.funcs, ctx.consts, pure_accessors={"get_class", "get_type", "get_created", "get_expire"}, max_paths=400)
        paths = ex.explore(f.name, args=[Ref(env, ()), Ref(rec, ())], objs=objs, assumptions=[z3.ULT(now, TWO62)])
    else:
        # the same rule written as a `for r in record_vec.iter_mut()` loop in add_or_update itself:
        # one pass of the loop body for an arbitrary cached record (window from the Some arm of next() back to next())
        owner = [n for n in ctx.funcs if n.endswith("::add_or_update")]
        f = ctx.funcs[owner[0]] if len(owner) == 1 else None
        nxt = None
        if f is not None:
            for b, (stmts, term) in f.blocks.items():
                m = re.match(r"(_\d+) = <std::slice::IterMut<'_, DnsRecordIntf> as Iterator>::next\(", term)
                if m:
                    nxt = m.group(1)
                    break
        start = None
        if nxt:
            for b, (stmts, term) in f.blocks.items():
                if any(re.search(r"= move \(\(%s as Some\)\.0" % nxt, x) for x in stmts):
                    start = b
                    break
        cl, nl, tl = (f.debug.get("class"), f.debug.get("now"), f.debug.get("rtype")) if f is not None else (None, None, None)
        if not (start and cl and nl and tl and re.fullmatch(r"_\d+", cl) and re.fullmatch(r"_\d+", nl) and re.fullmatch(r"_\d+", tl)):
            q.unknown.append(f"cache-flush rule not found: {len(cands)} closure candidates and no `for r in ..iter_mut()` loop over the cached records in add_or_update")
            return q.result()
        loop_form = True
        q.functions[0] = "DnsCache::add_or_update (window: one pass of the cache-flush loop over the cached records)"
        q.assumptions.append("window slice: one loop pass from an arbitrary state, `class` and `now` as bound before the loop")
        ex = Explorer(ctx.funcs, ctx.consts, pure_accessors={"get_class", "get_type", "get_created", "get_expire"}, max_paths=400,
                      stop_calls=("as Iterator>::next",))
        paths = ex.explore(f.name, start_block=start, objs={rec: {}},
                           locals_={nxt: Adt("Some", [Ref(rec, ())]), cl: BV(cls, 16), nl: BV(now, 64), tl: BV(rty, 16)}, assumptions=[z3.ULT(now, TWO62)])
        for p in paths:
            if p.outcome.startswith("stop:"):
                p.events = [e for e in p.events if not (e[0] == "call" and e[1].endswith("as Iterator>::next"))]
    if ex.unknown_constructs:
        q.notes.append("unmodelled: " + "; ".join(sorted(set(ex.unknown_constructs))[:4]))
    flushed = addr_flush = 0
    for i, p in enumerate(paths):
        if p.outcome.startswith("panic"):
            created = [v for k, v in p.acc.items() if k[0] == "get_created"]
            pre = p.cond + [z3.ULT(c.e, TWO62) for c in created]
            q.unsat(pre, "flush rule panics: " + p.outcome[6:40])
            continue
        if not (p.outcome == "return" and not loop_form or p.outcome.startswith("stop:") and loop_form):
            if loop_form and p.outcome == "return":
                q.unknown.append(f"path {i} leaves the loop body: {p.outcome[:60]}")
            continue
        calls = [e for e in p.events if e[0] == "call"]
        se = [e for e in calls if e[1].split("::")[-1] == "set_expire"]
        pushes = [e for e in calls if e[1].endswith("::push") and "Vec::<u64>" in e[1]]
        if not se:
            if pushes:
                q.fail.append(("a timer is requested although nothing was flushed", f"path {i}"))
            continue
        flushed += 1
        recv, X = se[0][2][0], se[0][2][1]
        if not (isinstance(recv, Ref) and recv.obj == rec):
            q.fail.append(("the shortened expiry is written to a record other than the cached one", f"path {i}: {recv}"))
            continue
        q.valid(p.cond, X.e == now + 1000, f"path {i}: a flushed record expires exactly one second later", X.taint)
        if len(pushes) != 1:
            q.fail.append(("no wake-up requested for the flushed record's new expiry", f"path {i}: {len(pushes)} timer pushes"))
        else:
            T = pushes[0][2][1]
            q.valid(p.cond, T.e == now + 1000, f"path {i}: the wake-up is requested for the new expiry (now + 1000)", T.taint)
        def acc(name):
            v = [val for k, val in p.acc.items() if k[0] == name and k[1] == rec]
            return v[0] if len(v) == 1 else None
        created, expire, rclass = acc("get_created"), acc("get_expire"), acc("get_class")
        if created is None or expire is None or rclass is None:
            q.fail.append(("the flush guards do not look at the cached record's own created/expires/class", f"path {i}: accessors on the cached record: " + ",".join(sorted({k[0] for k in p.acc if k[1] == rec}))))
            continue
        pre = p.cond + [z3.ULT(created.e, TWO62)]
        q.valid(pre, z3.UGT(now, created.e + 1000), f"path {i}: only records older than one second are flushed")
        q.valid(pre, z3.UGT(expire.e, now + 1000), f"path {i}: only records with more than one second left are flushed (a flush never extends a lifetime)")
        q.valid(pre, rclass.e == cls, f"path {i}: only records of the same class are flushed")
        q.witness(pre, f"path {i}: flush reachable")
        # address records are per link: an A/AAAA record is only flushed by a record received on the same interface
        from mirslice import ENUM_IDS
        ids = [z3.BitVecVal(ENUM_IDS.setdefault(k, 40000 + len(ENUM_IDS)) & 0xFFFF, 16) for k in ("RRType::A", "RRType::AAAA")]
        for vid, vname in zip(ids, ("A", "AAAA")):
            if not ex.feasible(pre + [rty == vid]):
                continue
            dc = [e for e in p.events if e[0] == "call" and e[1].endswith("downcast_ref")]
            if not any(e[0] == "call" and e[1].endswith("downcast_ref") for e in p.events):
                q.fail.append((f"an {vname} record is flushed without looking at the interface it was learned on (records of another link are flushed too)", f"path {i}"))
                continue
            # the two u32 interface indices read through the downcast references (objects the executor made up for them)
            idx = [v for o, flds in p.objs.items() if isinstance(o, tuple) and o and o[0] in ("hv", "ret", "fld", "fresh")
                   for k, v in flds.items() if isinstance(v, BV) and v.width == 32]
            if len(dc) == 2 and len(idx) == 2:
                addr_flush += 1
                q.valid(pre + [rty == vid], idx[0].e == idx[1].e, f"path {i}: an {vname} record is flushed only by a record from the same interface")
    if flushed == 0:
        q.unknown.append("no path of the closure flushes")
    elif addr_flush < 2:
        q.unknown.append(f"expected flush paths for A and AAAA records that compare the two interface ids (found {addr_flush})")
    return q.result()


def c05_evict_predicate(ctx):
    q = Q("c05_evict_predicate", ["DnsCache::evict_expired_addr::{closures}", "DnsCache::evict_expired_services::{closures}", "DnsRecord::is_expired"],
          "every retain-closure of the two eviction functions; record expiry and `now`: u64 x u64",
          ["get_record() is a pure accessor of the boxed record"])
    if not check_layout(ctx, q):
        return q.result()
    cands = [n for n in ctx.funcs if ("::evict_expired_addr::{closure" in n or "::evict_expired_services::{closure" in n)
             and ctx.funcs[n].ret == "bool"]
    if len(cands) < 4:
        q.unknown.append(f"expected >= 4 keep/evict closures (addr, srv, txt, ptr), found {len(cands)}")
    cands = [n for n in cands if not any(o != n and o.startswith(n + "::") for o in ctx.funcs)]
    for n in cands:
        f = ctx.funcs[n]
        seen_keep, seen_evict = 0, 0
        tag = n.split("::")[-3] + "::" + "::".join(n.split("::")[-2:]) if n.count("{closure") > 1 else "::".join(n.split("::")[-2:])
        ex = Explorer(ctx.funcs, ctx.consts, inline={"is_expired"}, max_paths=300)
        paths = ex.explore(n)
        rets = [p for p in paths if p.outcome == "return"]
        if not rets:
            q.unknown.append(f"{tag}: no returning path")
            continue
        for i, p in enumerate(rets):
            recs = [o for o in p.objs if isinstance(o, tuple) and o and o[0] == "record-of" and EXPIRES in p.objs[o]]
            if len(recs) != 1 or not isinstance(p.ret, BoolV):
                q.unknown.append(f"{tag} path {i}: keep/evict verdict does not come from exactly one record's expiry")
                continue
            exp = p.objs[recs[0]][EXPIRES].e
            others = [v for v in z3_vars(z3.And(p.ret.e, *p.cond)) if v.get_id() != exp.get_id() and v.size() == 64] if True else []
            others = [v for v in others if "now" in str(v) or ".0" in str(v) or "_" in str(v)]
            if len(others) != 1:
                q.unknown.append(f"{tag} path {i}: cannot identify `now` ({[str(o) for o in others][:3]})")
                continue
            nowv = others[0]
            q.valid(p.cond, p.ret.e == z3.Not(z3.UGE(nowv, exp)), f"{tag} path {i}: a record is kept <=> now < expires (evicted exactly from its expiry on)", p.ret.taint)
            if q.d.check(p.cond + [p.ret.e], f"witness:{tag} path {i}: kept")[0] == "sat":
                seen_keep += 1
            if q.d.check(p.cond + [z3.Not(p.ret.e)], f"witness:{tag} path {i}: evicted")[0] == "sat":
                seen_evict += 1
        if seen_keep and seen_evict:
            q.nontrivial += 1
        else:
            q.unknown.append(f"vacuous: {tag}: kept reachable={seen_keep}, evicted reachable={seen_evict}")
    return q.result()


def c10_suppressed_ptr_no_additionals(ctx):
    q = Q("c10_suppressed_ptr_no_additionals", ["DnsOutgoing::add_answer_with_additionals"],
          "every path of add_answer_with_additionals; the verdict of add_answer (suppressed or not) arbitrary", ["calls are opaque; only their order and the use of add_answer's verdict are checked"])
    f = ctx.funcs[ctx.fn("::add_answer_with_additionals")]
    ex = Explorer(ctx.funcs, ctx.consts, max_paths=600)
    paths = [p for p in ex.explore(f.name) if p.outcome == "return"]
    n_sup, n_ans = 0, 0
    for i, p in enumerate(paths):
        ev = p.events
        k = [j for j, e in enumerate(ev) if e[0] == "call" and "add_answer" in e[1].split("::")[-1] and "additional" not in e[1]]
        addi = [j for j, e in enumerate(ev) if e[0] == "call" and e[1].split("::")[-1].startswith("add_additional_answer")]
        if not k:
            if addi:
                q.fail.append(("additionals are added although no PTR answer was attempted", f"path {i}"))
            continue
        rets = [e for e in ev[k[0]:] if e[0] == "ret" and "add_answer" in e[1].split("::")[-1] and "additional" not in e[1]]
        if not rets or not isinstance(rets[0][2], BoolV):
            q.unknown.append(f"path {i}: verdict of add_answer not found")
            continue
        added = rets[0][2].e
        if any(j < k[0] for j in addi):
            q.fail.append(("an additional record is added before the PTR answer was decided", f"path {i}"))
        after = [j for j in addi if j > k[0]]
        if after:
            n_ans += 1
            q.valid(p.cond, added, f"path {i}: additionals only when the PTR answer was really added (not suppressed)", allow_havoc=True)
        else:
            n_sup += 1
    if n_sup == 0 or n_ans == 0:
        q.unknown.append(f"expected a suppressed path without additionals and an answered path with additionals (found {n_sup}/{n_ans})")
    else:
        q.nontrivial += 2
    return q.result()


# ---------------------------------------------------------------------------------------------
# C07: probe clock
# ---------------------------------------------------------------------------------------------

def c07_probe_clock(ctx):
    q = Q("c07_probe_clock", ["Probe::new", "Probe::expired", "Probe::update_next_send"],
          "every start time and observation time < 2^62", ["clock < 2^62"])
    pnew = ctx.funcs[ctx.fn("::new", lambda f: f.ret == "Probe")]
    txt = " ".join(s for b in pnew.blocks.values() for s in b[0])
    m = re.search(r"Probe \{ (.*?) \}", txt)
    names = [x.split(":")[0].strip() for x in m.group(1).split(", ")] if m else []
    if names != ["records", "waiting_services", "start_time", "next_send"]:
        q.unknown.append("layout: Probe field order changed: " + ",".join(names))
        return q.result()
    START, NEXT = (2,), (3,)
    t = z3.BitVec("t", 64)
    ex = Explorer(ctx.funcs, ctx.consts, inline=set())
    for p in ex.explore(pnew.name, args=[BV(t, 64)]):
        if p.outcome == "return":
            q.valid(p.cond, z3.And(p.ret.items[2].e == t, p.ret.items[3].e == t), "Probe::new: start_time == next_send == given start",
                    p.ret.items[2].taint or p.ret.items[3].taint)
            q.witness(p.cond, "new")
    start, nxt, now = z3.BitVec("start", 64), z3.BitVec("next_send", 64), z3.BitVec("now", 64)
    pre = [z3.ULT(start, TWO62), z3.ULT(now, TWO62)]
    f = {START: BV(start, 64), NEXT: BV(nxt, 64)}
    e = summarize(ctx.funcs, ctx.consts, ctx.fn("::expired", lambda fn: fn.args and fn.args[0][1] == "&Probe"), [None, BV(now, 64)], f, set())
    if e.ret is None or e.unknown:
        q.unknown.append("Probe::expired: translation incomplete")
        return q.result()
    q.unsat(pre + [e.panic], "Probe::expired panics")
    q.valid(pre, e.ret.e == z3.UGE(now, start + 750), "expired <=> now >= start + 750 ms (three probes 250 ms apart, then 250 ms of silence)")
    q.witness(pre + [e.ret.e], "expired")
    q.witness(pre + [z3.Not(e.ret.e)], "running")
    u = summarize(ctx.funcs, ctx.consts, ctx.fn("::update_next_send"), [None, BV(now, 64)], f, set())
    q.unsat(pre + [u.panic], "update_next_send panics")
    q.valid(pre, z3.And(u.fields.get(NEXT, f[NEXT]).e == now + 250, u.fields.get(START, f[START]).e == start),
            "next probe is due exactly 250 ms after this one; the start time is untouched")
    return q.result()


# ---------------------------------------------------------------------------------------------
# Slices: scheduling arithmetic inside Zeroconf methods
# ---------------------------------------------------------------------------------------------

def _reach(ctx, q, fname, stop, args=None, start_block="bb0", locals_=None, inline=(), max_paths=3000, objs=None):
    ex = Explorer(ctx.funcs, ctx.consts, inline=set(inline), stop_calls=(stop,) if isinstance(stop, str) else tuple(stop), max_paths=max_paths)
    paths = ex.explore(fname, args=args, start_block=start_block, locals_=locals_, objs=objs)
    if ex.unknown_constructs:
        q.notes.append("unmodelled constructs (havocked): " + "; ".join(sorted(set(ex.unknown_constructs))[:4]))
    if ex.cut_paths:
        q.unknown.append(f"path budget exhausted in {fname.split('::')[-1]}")
    return ex, paths


def c19_browse_backoff(ctx):
    q = Q("c19_browse_backoff", ["Zeroconf::exec_command_browse"],
          "every acyclic path to add_retransmission; every carried delay 1 <= d <= 3600 (the inductive invariant), every clock reading < 2^62",
          ["clock < 2^62", "unmodelled calls return arbitrary values and may rewrite everything behind a &mut", "induction hypothesis: 1 <= next_delay <= 3600"])
    d = z3.BitVec("next_delay", 32)
    inv = [z3.UGE(d, 1), z3.ULE(d, 3600)]
    ex, paths = _reach(ctx, q, ctx.fn("::exec_command_browse"), "Zeroconf::add_retransmission",
                       args=[None, None, None, BV(d, 32), None, None])
    hits = [p for p in paths if p.outcome.startswith("stop")]
    for p in paths:
        if p.outcome.startswith("panic"):
            q.unsat(inv + p.cond, "exec_command_browse panics: " + p.outcome[6:50])
    if not hits:
        q.unknown.append("call site add_retransmission not reached")
    for i, p in enumerate(hits):
        _, _, a, _ = p.events[-1]
        T, cmd = a[1], a[2]
        if not p.clock or not isinstance(cmd, Adt) or not cmd.name.endswith("Command::Browse") or len(cmd.items) != 4:
            q.unknown.append("re-run command is not Command::Browse(ty, delay, cache_only, listener)")
            continue
        now = p.clock[-1].e
        D = cmd.items[1]
        q.valid(inv + p.cond, T.e == now + zx(d) * 1000, f"path {i}: next query scheduled at now + 1000*delay", T.taint)
        q.valid(inv + p.cond, D.e == z3.If(z3.ULT(d * 2, z3.BitVecVal(3600, 32)), d * 2, z3.BitVecVal(3600, 32)),
                f"path {i}: carried delay doubles, capped at 3600 s", D.taint)
        q.valid(inv + p.cond, z3.And(z3.UGE(D.e, d), z3.ULE(D.e, 3600), z3.UGE(D.e, 1)), f"path {i}: invariant 1 <= delay' <= 3600 and delay' >= delay preserved", D.taint)
        cache_only = a[2].items[2]
        q.witness(inv + p.cond + [d == 3600], f"path {i}: at the cap")
        q.witness(inv + p.cond + [d == 1], f"path {i}: first retransmission")
    return q.result()


def c19_hostname_backoff(ctx):
    q = Q("c19_hostname_backoff", ["Zeroconf::exec_command_resolve_hostname"],
          "every acyclic path to add_retransmission; every carried delay 1 <= d <= 3600, every clock reading < 2^62",
          ["clock < 2^62", "unmodelled calls are havoc", "induction hypothesis: 1 <= next_delay <= 3600"])
    d = z3.BitVec("next_delay", 32)
    inv = [z3.UGE(d, 1), z3.ULE(d, 3600)]
    ex, paths = _reach(ctx, q, ctx.fn("::exec_command_resolve_hostname"), "Zeroconf::add_retransmission",
                       args=[None, None, None, BV(d, 32), None, None])
    hits = [p for p in paths if p.outcome.startswith("stop")]
    for p in paths:
        if p.outcome.startswith("panic"):
            q.unsat(inv + p.cond, "exec_command_resolve_hostname panics: " + p.outcome[6:50])
    if not hits:
        q.unknown.append("call site add_retransmission not reached")
    for i, p in enumerate(hits):
        _, _, a, _ = p.events[-1]
        T, cmd = a[1], a[2]
        if not p.clock or not isinstance(cmd, Adt) or not cmd.name.endswith("Command::ResolveHostname") or len(cmd.items) != 4:
            q.unknown.append("re-run command is not Command::ResolveHostname(host, delay, listener, timeout)")
            continue
        now = p.clock[-1].e
        D = cmd.items[1]
        q.valid(inv + p.cond, T.e == now + zx(d) * 1000, f"path {i}: next query scheduled at now + 1000*delay", T.taint)
        q.valid(inv + p.cond, D.e == z3.If(z3.ULT(d * 2, z3.BitVecVal(3600, 32)), d * 2, z3.BitVecVal(3600, 32)),
                f"path {i}: carried delay doubles, capped at 3600 s", D.taint)
        q.witness(inv + p.cond + [d == 3600], f"path {i}: at the cap")
    return q.result()


def c19_hostname_timeout_guard(ctx):
    q = Q("c19_hostname_timeout_guard", ["Zeroconf::exec_command_resolve_hostname::{closure} (is the next re-run still before the resolver's timeout?)", "Zeroconf::exec_command_resolve_hostname (operand of add_retransmission)"],
          "every scheduled instant and every timeout (u64 x u64)", ["the closure is matched to the enclosing function's local by the captured variable's name (MIR debug info)"])
    f = ctx.funcs[ctx.fn("::exec_command_resolve_hostname")]
    cands = [n for n in ctx.funcs if "::exec_command_resolve_hostname::{closure#" in n and ctx.funcs[n].ret == "bool"
             and len(ctx.funcs[n].args) == 2 and ctx.funcs[n].args[1][1] == "u64"]
    if len(cands) != 1:
        q.unknown.append(f"timeout guard closure: {len(cands)} candidates")
        return q.result()
    c = ctx.funcs[cands[0]]
    caps = {k: v for k, v in c.debug.items() if re.search(r"_1\.0: &?u64", v)}
    if len(caps) != 1:
        q.unknown.append(f"timeout guard closure captures {sorted(caps)} (expected one u64)")
        return q.result()
    (cname, cplace), = caps.items()
    cap, to = z3.BitVec("scheduled_for", 64), z3.BitVec("timeout", 64)
    by_ref = "&u64" in cplace
    env = Tup([Ref(("capcell", 0), (), mutable=False)]) if by_ref else Tup([BV(cap, 64)])
    ex = Explorer(ctx.funcs, ctx.consts, max_paths=20)
    rets = [p for p in ex.explore(c.name, args=[env, BV(to, 64)], objs={("capcell", 0): {(): BV(cap, 64)}}) if p.outcome == "return"]
    if not rets:
        q.unknown.append("timeout guard closure not translated")
    for i, p in enumerate(rets):
        if not isinstance(p.ret, BoolV):
            q.unknown.append("timeout guard closure: result not boolean")
            continue
        q.valid(p.cond, p.ret.e == z3.ULT(cap, to), f"closure path {i}: the re-run is kept iff (captured instant) < timeout", p.ret.taint)
    # the captured instant is the one the re-run is scheduled for
    parent_local = f.debug.get(cname)
    sched = [re.search(r"add_retransmission\((?:copy|move) _\d+, (?:copy|move) (_\d+),", t) for _, t in f.blocks.values()]
    sched = [m.group(1) for m in sched if m]
    if not sched:
        q.unknown.append("add_retransmission call not found in exec_command_resolve_hostname")
    elif parent_local not in sched:
        q.fail.append(("the guard that stops a hostname search at its timeout compares the timeout with a different instant than the one the next query is scheduled for: "
                       "a query is queued past the timeout (and, with the resolver gone, re-queues itself for ever)",
                       f"guard captures `{cname}` ({parent_local}); add_retransmission is given {sched}"))
    else:
        q.nontrivial += 1
    return q.result()


def c10_known_answer_wire_ttl(ctx):
    q = Q("c10_known_answer_wire_ttl", ["DnsOutgoing::add_answer_box (known answers of a query)", "DnsOutPacket::write_record (TTL written for a record added at time t)", "Zeroconf::send_query_vec (window: update_ttl to add_answer_box)"],
          "every path of add_answer_box; the time tag stored with a known answer", ["calls opaque"])
    g = ctx.funcs[ctx.fn("::add_answer_box")]
    ex = Explorer(ctx.funcs, ctx.consts, max_paths=20)
    n = 0
    for i, p in enumerate(ex.explore(g.name)):
        for e in p.events:
            if e[0] == "call" and e[1].endswith("::push") and len(e[2]) == 2 and isinstance(e[2][1], Tup) and len(e[2][1].items) == 2:
                n += 1
                t = e[2][1].items[1]
                if not isinstance(t, BV):
                    q.unknown.append("time tag of a known answer not resolved")
                    continue
                # send_query_vec has already rewritten the TTL to the remaining time (c10_update_ttl); write_record subtracts the age
                # again for every record whose time tag is not 0 (get_remaining_ttl): the tag of a known answer must be 0
                q.valid(p.cond, t.e == 0, "a known answer is stored with time tag 0, so its already-rewritten TTL is written as is (not aged twice)", t.taint)
    q.nontrivial += n
    if n == 0:
        q.unknown.append("add_answer_box: push of (record, time) not found")
    # write_record writes record.ttl untouched exactly when the tag is 0
    w = ctx.funcs[ctx.fn("::write_record")]
    nowv = z3.BitVec("time_tag", 64)
    ex2 = Explorer(ctx.funcs, ctx.consts, max_paths=200)
    seen0 = seen1 = 0
    for p in ex2.explore(w.name, args=[None, None, BV(nowv, 64)]):
        calls = [e[1].split("::")[-1] for e in p.events if e[0] == "call"]
        if "write_u32" not in calls:
            continue
        aged = "get_remaining_ttl" in calls[:calls.index("write_u32")]
        if aged:
            seen1 += 1
            q.valid(p.cond, nowv != 0, "write_record ages the TTL only for records with a non-zero time tag", allow_havoc=True)
        else:
            seen0 += 1
            q.valid(p.cond, nowv == 0, "write_record writes the stored TTL unchanged only for time tag 0", allow_havoc=True)
    if not (seen0 and seen1):
        q.unknown.append(f"write_record: expected both TTL paths (found {seen0}/{seen1})")
    return q.result()


def c19_resolve_retry(ctx):
    q = Q("c19_resolve_retry", ["Zeroconf::exec_command_resolve", "Zeroconf::add_pending_resolve"],
          "every try_count: u16, every clock reading < 2^62", ["clock < 2^62", "unmodelled calls are havoc"])
    tc = z3.BitVec("try_count", 16)
    ex, paths = _reach(ctx, q, ctx.fn("::exec_command_resolve"), "Zeroconf::add_retransmission", args=[None, None, BV(tc, 16)])
    hits = [p for p in paths if p.outcome.startswith("stop")]
    if not hits:
        q.unknown.append("exec_command_resolve: call site not reached")
    for p in paths:
        if p.outcome.startswith("panic"):
            q.unsat(p.cond + [z3.ULT(tc, 3)], "exec_command_resolve panics: " + p.outcome[6:50])
        forget = [e for e in p.events if e[0] == "call" and e[1].endswith("HashSet::<String>::remove")]
        if forget:
            q.fail.append(("exec_command_resolve takes the instance off the pending list itself: the mark that prevents a second chain of follow-ups for an instance that is still "
                           "unresolved is lost (three more queries on every later trigger)", f"at {forget[0][3]}"))
            break
    for i, p in enumerate(hits):
        _, _, a, _ = p.events[-1]
        T, cmd = a[1], a[2]
        if not p.clock or not isinstance(cmd, Adt) or not cmd.name.endswith("Command::Resolve"):
            q.unknown.append("re-run command is not Command::Resolve")
            continue
        q.valid(p.cond, z3.ULT(tc, 3), f"path {i}: a follow-up is only scheduled while try_count < 3")
        q.valid(p.cond, T.e == p.clock[-1].e + 500, f"path {i}: follow-up half a second later", T.taint)
        q.valid(p.cond, cmd.items[1].e == tc + 1, f"path {i}: try_count incremented", cmd.items[1].taint)
        q.witness(p.cond + [tc == 2], f"path {i}: third try")
    # the first follow-up
    ex, paths = _reach(ctx, q, ctx.fn("::add_pending_resolve"), "Zeroconf::add_retransmission")
    hits = [p for p in paths if p.outcome.startswith("stop")]
    if not hits:
        q.unknown.append("add_pending_resolve: call site not reached")
    for i, p in enumerate(hits):
        _, _, a, _ = p.events[-1]
        T, cmd = a[1], a[2]
        if not p.clock or not isinstance(cmd, Adt) or not cmd.name.endswith("Command::Resolve"):
            q.unknown.append("add_pending_resolve: command is not Command::Resolve")
            continue
        q.valid(p.cond, T.e == p.clock[-1].e + 500, f"pending path {i}: first follow-up at now + 500 ms", T.taint)
        q.valid(p.cond, cmd.items[1].e == 1, f"pending path {i}: first follow-up carries try_count 1", cmd.items[1].taint)
        q.witness(p.cond, f"pending path {i}")
    return q.result()


def c19_initial_delay(ctx):
    q = Q("c19_initial_delay", ["ServiceDaemon::browse", "ServiceDaemon::browse_cache", "ServiceDaemon::resolve_hostname"],
          "every path of the three API entry points to the command they enqueue", ["unmodelled calls are havoc"])
    for suffix, variant in (("::browse", "Command::Browse"), ("::browse_cache", "Command::Browse"), ("::resolve_hostname", "Command::ResolveHostname")):
        name = ctx.fn(suffix, lambda f: f.args and f.args[0][1] == "&ServiceDaemon")
        ex, paths = _reach(ctx, q, name, "ServiceDaemon::send_cmd")
        hits = [p for p in paths if p.outcome.startswith("stop")]
        if not hits:
            q.unknown.append(suffix + ": send_cmd not reached")
        for i, p in enumerate(hits):
            cmd = p.events[-1][2][1]
            if not isinstance(cmd, Adt) or not cmd.name.endswith(variant):
                q.unknown.append(f"{suffix}: enqueued command is {getattr(cmd, 'name', cmd)}")
                continue
            dly = cmd.items[1]
            q.valid(p.cond, dly.e == 1, f"{suffix[2:]} starts its schedule with a delay of 1 s", getattr(dly, "taint", True))
            q.witness(p.cond, suffix[2:])
    return q.result()


def _block_after_call(f, callee_pat, nth=0):
    """(return block, dest local) of the nth call whose callee matches"""
    found = []
    for b in sorted(f.blocks, key=lambda x: int(x[2:])):
        t = f.blocks[b][1]
        m = re.match(r"(?:(.+?) = )?(.+?)\((.*)\) -> (.*);$", t, re.S)
        if m and re.search(callee_pat, m.group(2)):
            rb = re.search(r"return: (bb\d+)", m.group(4))
            if rb:
                found.append((rb.group(1), (m.group(1) or "").strip(), b))
    return found[nth] if len(found) > nth else None


def _debug_local(f, name, nth=0):
    # `debug now => _41;` entries were collected first-wins; scan the header again for all
    return f.debug.get(name)


def c12_ipcheck_rearm(ctx):
    q = Q("c12_ipcheck_rearm", ["Zeroconf::run (tail of one loop iteration: interface-check re-arm)"],
          "every state at the end of a loop iteration: now < 2^62, next_ip_check: u64, ip_check_interval: any u64 (it can be changed at run time, including to 0)",
          ["clock < 2^62", "window slice: starts after probing_handler returns, all locals arbitrary"])
    f = ctx.funcs[ctx.fn("::run", lambda fn: fn.args and fn.args[0][1] == "&mut Zeroconf")]
    blk = _block_after_call(f, r"probing_handler")
    if blk is None:
        q.unknown.append("anchor call probing_handler not found in run")
        return q.result()
    start, _, _ = blk
    ex, paths = _reach(ctx, q, f.name, ["Zeroconf::add_timer"], start_block=start, max_paths=400)
    hits = [p for p in paths if p.outcome.startswith("stop")]
    if not hits:
        q.unknown.append("re-arm add_timer not reached from the end of the iteration")
    # the `now` the iteration works with: the operand compared against next_ip_check
    for i, p in enumerate(hits):
        arg = p.events[-1][2][1]
        # find (now >= next_ip_check) in the path condition: use the variables of the add: arg = now + interval
        now_vars = [v for v in z3_vars(arg.e) if "run._" in str(v) and not str(v).startswith("obj")]
        interval = [v for v in z3_vars(arg.e) if ".14" in str(v) or "obj" in str(v)]
        if len(now_vars) != 1:
            q.unknown.append(f"path {i}: cannot identify `now` in the timer operand {arg.e}")
            continue
        now = now_vars[0]
        pre = p.cond + [z3.ULT(now, TWO62)]
        q.valid(pre, z3.UGT(arg.e, now), f"path {i}: the interface-check timer is re-armed strictly in the future", arg.taint)
        q.witness(pre + [z3.UGT(arg.e, now)], f"path {i}: re-arm in the future")
    if q.fail:
        q.known = "F6"
        q.witness_class = "interval_zero" if all("=0" in m.replace(" ", "") for _, m in q.fail) else "other"
    return q.result()


def c12_hostname_timeout_timer(ctx):
    q = Q("c12_hostname_timeout_timer", ["Zeroconf::add_hostname_resolver"],
          "every path of add_hostname_resolver; the timeout option arbitrary", ["Option::map and HashMap::insert are opaque (both outcomes explored)"])
    f = ctx.funcs[ctx.fn("::add_hostname_resolver")]
    ex = Explorer(ctx.funcs, ctx.consts, max_paths=300)
    paths = ex.explore(f.name)
    n_some = 0
    for i, p in enumerate(paths):
        if p.outcome != "return":
            continue
        timers = [e for e in p.events if e[0] == "call" and e[1].endswith("Zeroconf::add_timer")]
        # the deadline option is the Option<u64> whose discriminant is examined (whatever the local is called)
        discr = [e for e in p.events if e[0] == "discr" and "Option<u64>" in f.local_types.get(e[2], "Option<u64>" if re.fullmatch(r"_\d+", e[2]) is None else f.local_types.get(e[2], ""))]
        if timers:
            n_some += 1
            # the timer value is the payload of real_timeout
            continue
        if not discr:
            q.fail.append(("a resolver with a deadline can be stored without any wake-up for that deadline (returns before testing the timeout)", f"path {i}"))
            continue
        q.valid(p.cond, discr[0][3].e == 0, f"path {i}: no timer only when there is no timeout")
    if n_some == 0:
        q.unknown.append("no path requests a timer")
    else:
        q.nontrivial += n_some
    return q.result()


def c12_response_record_timers(ctx):
    q = Q("c12_response_record_timers",
          ["Zeroconf::handle_response (window: one received record, from the return of DnsCache::add_or_update to the next record; window: the drain of the collected timers into Zeroconf::add_timer)"],
          "one pass of the record loop from an arbitrary state, for every verdict of add_or_update (None / Some(_, true) / Some(_, false)); one pass of the drain loop for an arbitrary collected instant",
          ["window slices", "add_or_update, get_expire_time, get_refresh_time and the listener calls are opaque", "which calls happen on which path is decided, not what the callees do"])
    f = ctx.funcs[ctx.fn("::handle_response")]
    tl = f.debug.get("timers")
    blk = _block_after_call(f, r"DnsCache::add_or_update$")
    if blk is None or not tl or not re.fullmatch(r"_\d+", tl):
        q.unknown.append("anchor not found: call of DnsCache::add_or_update / local `timers` in handle_response")
        return q.result()
    start, dest, callblk = blk
    # the window starts where the loop body starts (the Some arm of the record iterator), so that anything done
    # for a record BEFORE the cache has accepted it is seen too
    locals0 = None
    for b, (stmts, term) in f.blocks.items():
        mm = re.match(r"(_\d+) = <std::iter::Chain<.*> as Iterator>::next\(", term)
        if mm:
            for b2, (st2, t2) in f.blocks.items():
                if any(re.search(r"= move \(\(%s as Some\)\.0" % mm.group(1), x) for x in st2):
                    start, locals0 = b2, {mm.group(1): Adt("Some", [Opaque("incoming record")])}
    if locals0 is None:
        q.unknown.append("anchor not found: the loop over msg.all_records() in handle_response")
        return q.result()
    ex = Explorer(ctx.funcs, ctx.consts, stop_calls=("as Iterator>::next",), max_paths=1500)
    paths = ex.explore(f.name, start_block=start, locals_=locals0)
    if ex.cut_paths:
        q.unknown.append("path budget exhausted in the record loop of handle_response")
    n_some = n_none = 0
    for i, p in enumerate(paths):
        if not (p.outcome.startswith("stop:") or p.outcome == "return"):
            continue
        d = [e for e in p.events if e[0] == "discr" and e[2] == dest]
        if not d:
            q.unknown.append(f"path {i}: the verdict of add_or_update is never examined")
            continue
        dv = d[0][3]
        may_some, may_none = ex.feasible(p.cond + [dv.e != 0]), ex.feasible(p.cond + [dv.e == 0])
        rets = {}
        for e in p.events:
            if e[0] == "ret" and e[1].split("::")[-1] in ("get_expire_time", "get_refresh_time"):
                rets.setdefault(e[1].split("::")[-1], []).append(e[2])
        pushes = [e[2][1] for e in p.events if e[0] == "call" and e[1].endswith("Vec::<u64>::push") and isinstance(e[2][0], Ref)
                  and isinstance(e[2][0].obj, tuple) and e[2][0].obj[0] == "local" and e[2][0].obj[2] == tl]
        if may_some and not may_none:
            n_some += 1
            for what, label in (("get_expire_time", "expiry"), ("get_refresh_time", "next refresh")):
                vals = rets.get(what, [])
                hit = [v for v in vals for x in pushes if isinstance(v, BV) and isinstance(x, BV) and v.e.eq(x.e)]
                if not hit:
                    q.fail.append((f"a record was stored or updated in the cache but no wake-up is collected for its {label}",
                                   f"path {i}: {len(vals)} {what} calls, {len(pushes)} pushes to `timers`"))
            q.witness(p.cond, f"classify: path {i} stores a record")
        elif may_none and not may_some:
            n_none += 1
            if pushes:
                q.fail.append(("a record the cache did not store (not for us / unknown type) still leaves wake-ups in the timer queue: the queue grows with foreign traffic",
                               f"path {i}: {len(pushes)} pushes to `timers`"))
        else:
            q.unknown.append(f"path {i}: not classified by the verdict of add_or_update")
    if n_some < 2 or n_none < 1:
        q.unknown.append(f"expected paths for new, updated and ignored records (found {n_some} storing, {n_none} ignoring)")
    # ---- the drain: every collected instant reaches add_timer ----
    drain = None
    for b in sorted(f.blocks, key=lambda x: int(x[2:])):
        stmts, term = f.blocks[b]
        m = re.match(r"(_\d+) = <Vec<u64> as IntoIterator>::into_iter\(move (_\d+)\)", term)
        if m and any(re.fullmatch(r"%s = move %s;" % (m.group(2), tl), x) for x in stmts):
            drain = b
            break
    nb = _block_after_call(f, r"<std::vec::IntoIter<u64> as Iterator>::next$")
    if drain is None or nb is None:
        q.unknown.append("anchor not found: `for t in timers` (Vec<u64>::into_iter of the local `timers` and IntoIter<u64>::next)")
        return q.result()
    nstart, ndest, _ = nb
    item, found = z3.BitVec("collected_timer", 64), z3.BitVec("next_is_some", 64)
    ex2 = Explorer(ctx.funcs, ctx.consts, stop_calls=("Zeroconf::add_timer",), max_paths=100)
    paths2 = ex2.explore(f.name, start_block=nstart, locals_={ndest: Adt("Option::Some?", [BV(item, 64)], discr=found)},
                         assumptions=[z3.ULE(found, z3.BitVecVal(1, 64))])
    armed = 0
    for i, p in enumerate(paths2):
        if p.outcome.startswith("stop:"):
            arg = [e for e in p.events if e[0] == "call" and e[1].endswith("Zeroconf::add_timer")][-1][2][1]
            if not isinstance(arg, BV):
                q.unknown.append(f"drain path {i}: add_timer operand not resolved")
                continue
            armed += 1
            q.valid(p.cond, z3.And(found == 1, arg.e == item), f"drain path {i}: add_timer gets the collected instant", arg.taint)
            q.witness(p.cond, f"drain path {i}")
        else:
            q.valid(p.cond, found == 0, f"drain path {i}: a collected instant is dropped without add_timer ({p.outcome[:30]})")
    if armed == 0:
        q.unknown.append("no path of the drain loop reaches add_timer")
    return q.result()


def _drains_into_add_timer(ctx, f, local, q, tag):
    """`for t in <local>` feeding every item to Zeroconf::add_timer (one pass of the loop, arbitrary item)"""
    drain = None
    for b in sorted(f.blocks, key=lambda x: int(x[2:])):
        stmts, term = f.blocks[b]
        m = re.match(r"(_\d+) = <Vec<u64> as IntoIterator>::into_iter\(move (_\d+)\)", term)
        if m and (m.group(2) == local or any(re.fullmatch(r"%s = move %s;" % (m.group(2), local), x) for x in stmts)):
            drain = b
            break
    nb = _block_after_call(f, r"<std::vec::IntoIter<u64> as Iterator>::next$")
    if drain is None or nb is None:
        q.unknown.append(f"{tag}: anchor not found: `for t in timers` (Vec<u64>::into_iter of the collecting local and IntoIter<u64>::next)")
        return
    nstart, ndest, _ = nb
    item, found = z3.BitVec("collected_timer", 64), z3.BitVec("next_is_some", 64)
    ex2 = Explorer(ctx.funcs, ctx.consts, stop_calls=("Zeroconf::add_timer",), max_paths=100)
    paths2 = ex2.explore(f.name, start_block=nstart, locals_={ndest: Adt("Option::Some?", [BV(item, 64)], discr=found)},
                         assumptions=[z3.ULE(found, z3.BitVecVal(1, 64))])
    armed = 0
    for i, p in enumerate(paths2):
        if p.outcome.startswith("stop:"):
            arg = [e for e in p.events if e[0] == "call" and e[1].endswith("Zeroconf::add_timer")][-1][2][1]
            if not isinstance(arg, BV):
                q.unknown.append(f"{tag}: drain path {i}: add_timer operand not resolved")
                continue
            armed += 1
            q.valid(p.cond, z3.And(found == 1, arg.e == item), f"{tag}: drain path {i}: add_timer gets the collected instant", arg.taint)
            q.witness(p.cond, f"{tag}: drain path {i}")
        else:
            q.valid(p.cond, found == 0, f"{tag}: drain path {i}: a collected instant is dropped without add_timer ({p.outcome[:30]})")
    if armed == 0:
        q.unknown.append(f"{tag}: no path of the drain loop reaches add_timer")


def c12_rerun_has_timer(ctx):
    q = Q("c12_rerun_has_timer", ["every function that pushes a ReRun onto Zeroconf::retransmissions (window: from the push to the end of the function or of the loop pass)"],
          "every site `retransmissions.push(ReRun { next_time, .. })` in the crate; next_time: any u64; every path through the push, from up to 6 blocks before it to the return / loop back-edge",
          ["window slices", "calls other than the timer pushes are opaque"])
    sites = []
    for name, f in ctx.funcs.items():
        for b, (stmts, term) in f.blocks.items():
            m = re.match(r"(?:_\d+) = Vec::<(?:service_daemon::)?ReRun>::push\(move (_\d+), move (_\d+)\) -> \[return: (bb\d+)", term)
            if m:
                sites.append((name, b, m.group(2), m.group(3)))
    if len(sites) < 3:
        q.unknown.append(f"expected at least 3 sites pushing a ReRun (add_retransmission, the re-announcement, the goodbye repeat); found {len(sites)}")
    drained = set()
    for name, b, rr, rb in sorted(sites):
        f = ctx.funcs[name]
        tag = name.split("::")[-1] + ":" + b
        agg = [re.fullmatch(r"%s = (?:service_daemon::)?ReRun \{ next_time: (?:copy|move) (_\d+), command: .* \};" % rr, x) for x in f.blocks[b][0]]
        agg = [a for a in agg if a]
        if len(agg) != 1:
            q.unknown.append(f"{tag}: the ReRun value is not built next to the push")
            continue
        # the window starts a few blocks before the push (the wake-up may be requested just before or after queueing the
        # re-run: the order of the two independent pushes does not matter) and runs to the end of the function / loop pass
        ex = Explorer(ctx.funcs, ctx.consts, max_paths=1200)
        paths = ex.explore(f.name, start_block=_walk_back(f, b, 6))
        if ex.cut_paths:
            q.unknown.append(f"{tag}: path budget exhausted")
        seen = 0
        for i, p in enumerate(paths):
            if not (p.outcome == "return" or p.outcome.startswith("cut:loop")):
                continue
            here = [e for e in p.events if e[0] == "call" and e[3] == (name.split("::")[-1], b) and re.search(r"ReRun>::push$", e[1])]
            if not here:
                continue   # this path does not queue the re-run of this site
            rrv = here[0][2][1]
            ntv = rrv.items[0] if isinstance(rrv, Adt) and rrv.items and isinstance(rrv.items[0], BV) else None
            if ntv is None:
                q.unknown.append(f"{tag}: path {i}: next_time of the queued re-run not resolved")
                continue
            nt = ntv.e
            seen += 1
            got = []
            for e in p.events:
                if e[0] != "call":
                    continue
                if e[1].endswith("Zeroconf::add_timer") and len(e[2]) == 2:
                    got.append(e[2][1])
                elif "BinaryHeap" in e[1] and e[1].endswith("::push") and len(e[2]) == 2:
                    a = e[2][1]
                    got.append(a.items[0] if isinstance(a, (Adt, Tup)) and a.items else a)
                elif e[1].endswith("Vec::<u64>::push") and len(e[2]) == 2 and isinstance(e[2][0], Ref) and isinstance(e[2][0].obj, tuple) and e[2][0].obj[0] == "local":
                    got.append(e[2][1])
                    drained.add((name, e[2][0].obj[2]))
            got = [g for g in got if isinstance(g, BV)]
            if not got:
                q.fail.append(("a re-run is queued but no wake-up is requested for its time", f"{tag}: path {i} ({p.outcome[:20]})"))
                continue
            clean = [g for g in got if not g.taint]   # e.g. not the items a later drain loop hands to add_timer
            q.valid(p.cond, z3.Or(*[g.e == nt for g in clean]) if clean else z3.BoolVal(False),
                    f"{tag}: path {i}: the wake-up requested is the re-run's next_time", not clean)
            if seen == 1:
                q.witness(p.cond, f"{tag}: path {i}")
        if seen == 0:
            q.unknown.append(f"{tag}: no path from the push to the end of the function / loop pass")
    for name, local in sorted(drained):
        _drains_into_add_timer(ctx, ctx.funcs[name], local, q, name.split("::")[-1])
    return q.result()


def c12_probe_timers(ctx):
    q = Q("c12_probe_timers", ["DnsRegistry::is_probing_done (every path)", "every `for timer in dns_registry.new_timers.drain(..)` loop of the daemon (window: one pass)"],
          "every path of is_probing_done with opaque record comparisons; one pass of each drain loop for an arbitrary drained instant",
          ["window slices", "record comparison, map look-ups and the probe's record list are opaque"])
    # (a) a record that still has to be probed leaves the probe's next send time in new_timers
    cands = [n for n in ctx.funcs if n.endswith("::is_probing_done") and "{closure" not in n]
    if len(cands) != 1:
        q.unknown.append(f"is_probing_done: {len(cands)} candidates")
    else:
        f = ctx.funcs[cands[0]]
        ex = Explorer(ctx.funcs, ctx.consts, max_paths=600)
        paths = ex.explore(f.name)
        if ex.cut_paths:
            q.unknown.append("is_probing_done: path budget exhausted")
        n_false = n_true = 0
        for i, p in enumerate(paths):
            if p.outcome != "return" or not isinstance(p.ret, BoolV):
                continue
            can_false, can_true = ex.feasible(p.cond + [z3.Not(p.ret.e)]), ex.feasible(p.cond + [p.ret.e])
            if can_true and not can_false:
                n_true += 1
                continue
            if can_true and can_false:
                q.unknown.append(f"is_probing_done path {i}: verdict not fixed by the path")
                continue
            n_false += 1
            pushes = [e for e in p.events if e[0] == "call" and e[1].endswith("Vec::<u64>::push") and isinstance(e[2][0], Ref)
                      and isinstance(e[2][0].obj, tuple) and e[2][0].obj[0] == "arg"]
            if not pushes:
                q.fail.append(("a record is (still) being probed but the probe's next send time is not left in new_timers", f"is_probing_done path {i}"))
                continue
            # the pushed value is read from the probe the map handed out (field next_send), not a fresh clock reading
            val = pushes[0][2][1]
            # (the executor names a field read `obj<object>.<field path>`; the object is the &mut Probe returned by or_insert_with)
            if not (isinstance(val, BV) and re.match(r"obj[\w.]*or_insert_with_\d+\.\d+!", str(val.e))):
                q.unknown.append(f"is_probing_done path {i}: pushed instant not traced to a field of the probe")
            if not any(e[0] == "call" and e[1].endswith("HashSet::<String>::insert") for e in p.events):
                q.fail.append(("a record is (still) being probed for a service, but the service is not put on the probe's waiting list: it is never woken up when the probe finishes (stays Probing for ever)",
                               f"is_probing_done path {i}"))
            if n_false == 1:
                q.witness(p.cond, f"classify: path {i} still probing")
        if n_false < 2 or n_true < 1:
            q.unknown.append(f"is_probing_done: expected paths for 'already active' and 'probing' (found {n_true}/{n_false})")
    # (c) the drain happens AFTER the announce attempt that queued the probes: from every call of announce_service_on_intf in a
    #     function that drains new_timers, every path that marks the service Probing drains before the loop pass / function ends
    for name, fn in sorted(ctx.funcs.items()):
        if not any(re.search(r"Vec::<u64>::drain", t) for _, t in fn.blocks.values()) or "{closure" in name:
            continue
        tag = name.split("::")[-1]
        calls = [(b, re.search(r"return: (bb\d+)", t).group(1)) for b, (_, t) in fn.blocks.items()
                 if re.search(r"= (?:service_daemon::)?announce_service_on_intf\(", t) and re.search(r"return: (bb\d+)", t)]
        if not calls:
            q.unknown.append(f"{tag}: drains new_timers but no call of announce_service_on_intf found")
            continue
        for cb, rb in calls:
            ex3 = Explorer(ctx.funcs, ctx.consts, max_paths=600)
            n_prob = 0
            for i, p in enumerate(ex3.explore(name, start_block=rb)):
                if not (p.outcome == "return" or p.outcome.startswith("cut:loop")):
                    continue
                ev = [e for e in p.events if e[0] == "call"]
                prob = [j for j, e in enumerate(ev) if e[1].endswith("::set_status") and len(e[2]) >= 3 and isinstance(e[2][2], Adt) and e[2][2].name.endswith("Probing")]
                again = [j for j, e in enumerate(ev) if e[1].endswith("announce_service_on_intf")]
                if not prob or (again and again[0] < prob[0]):
                    continue   # announced, or the marking belongs to a later announce attempt
                n_prob += 1
                if not any(e[1].endswith("Vec::<u64>::drain") for e in ev):
                    q.fail.append(("a service is left Probing on an interface but the probe times queued by that attempt are not moved to the timer heap (drained before the attempt, or not at all)",
                                   f"{tag}: from {cb}, path {i}"))
            if n_prob == 0:
                q.unknown.append(f"{tag}: no path from the announce attempt at {cb} marks the service Probing")
            else:
                q.nontrivial += 1
    # (b) every drain of new_timers feeds the daemon's timer heap
    sites = []
    for name, f in ctx.funcs.items():
        for b, (stmts, term) in f.blocks.items():
            m = re.match(r"(_\d+) = <std::vec::Drain<'_, u64> as Iterator>::next\(.*\) -> \[return: (bb\d+)", term)
            if m:
                sites.append((name, m.group(1), m.group(2)))
    if len(sites) < 2:
        q.unknown.append(f"expected the two loops draining DnsRegistry::new_timers (add_interface, register_service); found {len(sites)}")
    for name, ndest, nstart in sorted(sites):
        tag = name.split("::")[-1]
        item, found = z3.BitVec("drained_timer", 64), z3.BitVec("next_is_some", 64)
        ex2 = Explorer(ctx.funcs, ctx.consts, stop_calls=("::push",), max_paths=100)
        paths2 = ex2.explore(name, start_block=nstart, locals_={ndest: Adt("Option::Some?", [BV(item, 64)], discr=found)},
                             assumptions=[z3.ULE(found, z3.BitVecVal(1, 64))])
        armed = 0
        for i, p in enumerate(paths2):
            last = [e for e in p.events if e[0] == "call"]
            if p.outcome.startswith("stop:") and last and "BinaryHeap" in last[-1][1]:
                a = last[-1][2][1]
                a = a.items[0] if isinstance(a, (Adt, Tup)) and a.items else a
                if not isinstance(a, BV):
                    q.unknown.append(f"{tag}: drain path {i}: heap operand not resolved")
                    continue
                armed += 1
                q.valid(p.cond, z3.And(found == 1, a.e == item), f"{tag}: drain path {i}: the drained instant goes onto the timer heap", a.taint)
                q.witness(p.cond, f"{tag}: drain path {i}")
            else:
                q.valid(p.cond, found == 0, f"{tag}: drain path {i}: a drained instant is dropped ({p.outcome[:30]})")
        if armed == 0:
            q.unknown.append(f"{tag}: no path of the drain loop reaches the timer heap")
    return q.result()


def c12_hostname_timeout_due(ctx):
    q = Q("c12_hostname_timeout_due", ["Zeroconf::run::{closure} (which hostname resolvers have timed out)"],
          "every deadline and every now (u64 x u64)", [])
    cands = [n for n, f in ctx.funcs.items() if "::run::{closure#" in n and n.count("{closure#") == 2 and f.ret == "bool" and len(f.args) == 2 and f.args[1][1] == "u64"]
    if len(cands) != 1:
        q.unknown.append(f"deadline test closure: {len(cands)} candidates")
        return q.result()
    now, t = z3.BitVec("now", 64), z3.BitVec("deadline", 64)
    env = Tup([Ref(("nowcell", 1), (), mutable=False)])
    ex = Explorer(ctx.funcs, ctx.consts)
    rets = [p for p in ex.explore(cands[0], args=[env, BV(t, 64)], objs={("nowcell", 1): {(): BV(now, 64)}}) if p.outcome == "return"]
    if not rets or ex.unknown_constructs:
        q.unknown.append("closure not translated")
    for i, p in enumerate(rets):
        q.valid(p.cond, p.ret.e == z3.UGE(now, t), f"path {i}: a resolver is timed out exactly from its deadline on (now >= deadline)", p.ret.taint)
        q.witness(p.cond + [p.ret.e], "due")
        q.witness(p.cond + [z3.Not(p.ret.e)], "not yet")
    return q.result()


def c12_conflict_probe_timer(ctx):
    q = Q("c12_conflict_probe_timer", ["Zeroconf::conflict_handler (window: new probe created for a renamed record)"],
          "window from the creation of a new probe (entry().or_insert_with) to Probe::insert_record; probe state arbitrary", ["window slice"])
    f = ctx.funcs[ctx.fn("::conflict_handler")]
    blk = _block_after_call(f, r"or_insert_with")
    if blk is None:
        q.unknown.append("anchor entry().or_insert_with not found in conflict_handler")
        return q.result()
    start, dest, _ = blk
    probe = ("newprobe", 0)
    ex = Explorer(ctx.funcs, ctx.consts, stop_calls=("Probe::insert_record",), max_paths=300)
    paths = ex.explore(f.name, start_block=start, locals_={dest: Ref(probe, ())} if dest else None, objs={probe: {}})
    hits = [p for p in paths if p.outcome.startswith("stop")]
    if not hits:
        q.unknown.append("insert_record not reached from the new-probe arm")
    for i, p in enumerate(hits):
        pushes = [e for e in p.events if e[0] == "call" and "BinaryHeap" in e[1] and e[1].endswith("::push")]
        if not pushes:
            q.fail.append(("a new probe is created for the renamed record but no wake-up is requested for its first send", f"path {i}"))
            continue
        arg = pushes[0][2][1]
        val = arg.items[0] if isinstance(arg, (Adt, Tup)) and arg.items else arg
        ns = p.objs.get(probe, {}).get((3,))
        if ns is None or not isinstance(val, BV):
            q.unknown.append(f"path {i}: timer operand not resolved to the probe's next_send")
            continue
        q.valid(p.cond, val.e == ns.e, f"path {i}: the wake-up is the new probe's next_send", val.taint)
        q.witness(p.cond, f"path {i}")
    return q.result()


def c12_tiebreak_retry_timer(ctx):
    q = Q("c12_tiebreak_retry_timer", ["Zeroconf::handle_query (window: simultaneous-probe tiebreak)", "Probe::tiebreaking (as an arbitrary update of the probe)"],
          "window from the call of Probe::tiebreaking to the next question-type test; the probe before and after the call is arbitrary", ["window slice", "tiebreaking may change the probe in any way (havoc)"])
    f = ctx.funcs[ctx.fn("::handle_query")]
    start = None
    for b in sorted(f.blocks, key=lambda x: int(x[2:])):
        if re.search(r"Probe::tiebreaking\(", f.blocks[b][1]):
            start = b
    if start is None:
        q.unknown.append("call of Probe::tiebreaking not found in handle_query")
        return q.result()
    # include the predecessor block(s) that may read the probe before the call: start at the unique predecessor chain of length <= 2
    preds = [b for b, (st, t) in f.blocks.items() if re.search(r"(?:-> |: )" + start + r"\b", t) and "unwind: " + start not in t]
    begin = preds[0] if len(preds) == 1 else start
    ex = Explorer(ctx.funcs, ctx.consts, stop_calls=("PartialEq>::eq", "::eq"), max_paths=300)
    paths = ex.explore(f.name, start_block=begin)
    done = [p for p in paths if p.outcome.startswith("stop") or p.outcome == "return"]
    done = [p for p in done if any(e[0] == "call" and e[1].endswith("Probe::tiebreaking") for e in p.events)]
    if not done:
        q.unknown.append("no path from the tiebreak to the next question-type test")
    n_push = 0
    for i, p in enumerate(done):
        idx = max(k for k, e in enumerate(p.events) if e[0] == "call" and e[1].endswith("Probe::tiebreaking"))
        probe_ref = p.events[idx][2][0]
        after = p.events[idx + 1:]
        pushes = [e for e in after if e[0] == "call" and "BinaryHeap" in e[1] and e[1].endswith("::push")]
        new = p.objs.get(probe_ref.obj, {}).get(probe_ref.path + (3,)) if isinstance(probe_ref, Ref) else None
        if pushes:
            n_push += 1
            arg = pushes[0][2][1]
            val = arg.items[0] if isinstance(arg, (Adt, Tup)) and arg.items else arg
            if new is None or not isinstance(val, BV):
                q.unknown.append(f"path {i}: timer operand not resolved")
            else:
                q.valid(p.cond, val.e == new.e, f"path {i}: the wake-up requested after a tiebreak is the probe's (possibly postponed) next_send", val.taint)
            continue
        # no wake-up: only acceptable if the path establishes that next_send did not move
        if new is None:
            q.fail.append(("after a tiebreak (which may postpone the probe by one second) no wake-up is requested for the new next_send", f"path {i}: next_send is not even read after the call"))
            continue
        olds = [v for v in z3_vars(z3.And(*p.cond)) if v.size() == 64 and v.get_id() != new.e.get_id()
                and str(v).startswith("obj")] if p.cond else []
        if len(olds) != 1:
            q.fail.append(("after a tiebreak no wake-up is requested and the path does not compare next_send with its old value", f"path {i}"))
            continue
        q.valid(p.cond, new.e == olds[0], f"path {i}: no wake-up only if next_send did not move")
    if n_push:
        q.nontrivial += n_push
    elif not q.fail:
        q.unknown.append("no path requests a wake-up after the tiebreak")
    return q.result()


def _deref_val(p, v):
    if isinstance(v, Ref):
        return p.objs.get(v.obj, {}).get(v.path)
    return v


def c08_tiebreak_count_operands(ctx):
    q = Q("c08_tiebreak_count_operands", ["Probe::tiebreaking (record-count comparison after an equal prefix)"],
          "every explored path of Probe::tiebreaking to the record-count comparison (first loop iteration, opaque record comparisons)",
          ["calls are opaque; the operands of the final usize comparison are traced to the calls that produced them"])
    f = ctx.funcs[ctx.fn("::tiebreaking")]
    ex = Explorer(ctx.funcs, ctx.consts, stop_calls=("<usize as Ord>::cmp",), max_paths=600)
    paths = [p for p in ex.explore(f.name) if p.outcome.startswith("stop")]
    if not paths:
        q.unknown.append("the record-count comparison (<usize as Ord>::cmp) is not reached")
    for i, p in enumerate(paths):
        a, b = [_deref_val(p, x) for x in p.events[-1][2][:2]]
        lens = [(e[1], e[2]) for e in p.events if e[0] == "ret" and e[1].split("::")[-1] == "len"]
        def origin(v):
            if not isinstance(v, BV):
                return None
            for name, rv in reversed(lens):
                if isinstance(rv, BV) and rv.e.eq(v.e):
                    return name
            return None
        oa, ob = origin(a), origin(b)
        if oa is None or ob is None:
            q.fail.append(("the record-count tiebreak does not compare the lengths of the two record lists", f"path {i}: operands come from {oa} / {ob}"))
            continue
        ours = "Vec::<Box<dyn" in oa and "&Box" not in oa
        theirs = "Vec::<&Box<dyn" in ob
        if not (ours and theirs):
            q.fail.append(("the record-count tiebreak must compare our record count with the number of the other prober's records of that name, in this order", f"path {i}: {oa} vs {ob}"))
        else:
            q.nontrivial += 1
    # what is done with the verdict: Less <=> postpone (decided by the Kani harnesses c08_tiebreak_*)
    return q.result()


def c19_browse_listener_gone(ctx):
    q = Q("c19_browse_listener_gone", ["Zeroconf::exec_command_browse"],
          "every path of exec_command_browse on which delivering SearchStarted fails (the browser's receiver was dropped)",
          ["Sender::send is opaque: both outcomes explored"])
    f = ctx.funcs[ctx.fn("::exec_command_browse")]
    ex = Explorer(ctx.funcs, ctx.consts, max_paths=800)
    paths = [p for p in ex.explore(f.name) if p.outcome == "return"]
    n_err = 0
    for i, p in enumerate(paths):
        ev = p.events
        sends = [j for j, e in enumerate(ev) if e[0] == "call" and e[1].split("::")[-1] == "send" and "Sender" in e[1]]
        if not sends:
            continue
        d = [e for e in ev[sends[0]:] if e[0] == "discr"]
        if not d:
            q.unknown.append(f"path {i}: outcome of the first send is not examined")
            continue
        dv = d[0][3]
        is_err = q.d.check(p.cond + [dv.e == 0], f"classify: path {i}: first send Ok?")[0] == "unsat"
        if not is_err:
            continue
        n_err += 1
        later = [e[1].split("::")[-1] for e in ev[sends[0] + 1:] if e[0] == "call"]
        bad = [c for c in later if c in ("add_retransmission", "send_query", "insert", "query_cache_for_service")]
        if bad:
            q.fail.append(("a browse whose listener is already gone still registers / queries / schedules a retransmission (a second schedule for the type survives)", f"path {i}: calls after the failed SearchStarted: {bad}"))
    if n_err == 0:
        q.unknown.append("no path on which SearchStarted cannot be delivered")
    else:
        q.nontrivial += n_err
    return q.result()


def c20_purge_loop_step(ctx):
    q = Q("c20_purge_loop_step", ["every `while i < self.retransmissions.len()` purge loop (exec_command_stop_browse, exec_command_stop_resolve_hostname): one pass from an arbitrary index"],
          "the inductive step of the index loop: ANY index i (usize), ANY queue contents (element tests are opaque); one pass to the back edge",
          ["window slice: one loop pass", "the element test (command kind and name comparison) is opaque: both outcomes explored"])
    sites = 0
    for name, fn in sorted(ctx.funcs.items()):
        if "{closure" in name or not any(re.search(r"Vec::<(?:service_daemon::)?ReRun>::remove\(", t) for _, t in fn.blocks.values()):
            continue
        if not name.split("::")[-1].startswith("exec_command_stop"):
            continue   # the run loop's own re-run loop has a different shape and is decided by c19_rerun_due
        il = fn.debug.get("i")
        heads = {}
        for b, (stmts, t) in fn.blocks.items():
            m = re.match(r"goto -> (bb\d+);", t)
            if m and int(m.group(1)[2:]) < int(b[2:]):
                heads[m.group(1)] = heads.get(m.group(1), 0) + 1
        head = [h for h in heads if il and any(re.search(r"Lt\((?:copy|move) %s\b" % il, x) or re.search(r"= copy %s;" % il, x) for x in fn.blocks[h][0])]
        tag = name.split("::")[-1]
        if not il or not re.fullmatch(r"_\d+", il) or len(head) != 1:
            q.unknown.append(f"{tag}: index loop not recognised (index local {il}, loop heads {sorted(heads)})")
            continue
        sites += 1
        i0 = z3.BitVec("i", 64)
        ex = Explorer(ctx.funcs, ctx.consts, max_visits=1, max_paths=300)
        paths = ex.explore(fn.name, start_block=head[0], locals_={il: BV(i0, 64)})
        n_rm = n_keep = 0
        for k, p in enumerate(paths):
            if not p.outcome.startswith("cut:loop"):
                continue
            fin = getattr(p, "final_locals", {}).get(il)
            if not isinstance(fin, BV):
                q.unknown.append(f"{tag}: path {k}: index at the back edge not available")
                continue
            rm = [e for e in p.events if e[0] == "call" and re.search(r"Vec::<(?:service_daemon::)?ReRun>::remove$", e[1])]
            pre = p.cond + [z3.ULT(i0, TWO62)]
            if rm:
                n_rm += 1
                arg = rm[0][2][1]
                if isinstance(arg, BV):
                    q.valid(pre, arg.e == i0, f"{tag}: path {k}: the element removed is the one just examined", arg.taint)
                q.valid(pre, fin.e == i0, f"{tag}: path {k}: after a removal the same index is examined again (the next element moved into it)", fin.taint)
            else:
                n_keep += 1
                q.valid(pre, fin.e == i0 + 1, f"{tag}: path {k}: an element that stays is stepped over exactly once", fin.taint)
            q.witness(pre, f"{tag}: path {k}")
        if n_rm == 0 or n_keep == 0:
            q.unknown.append(f"{tag}: expected removing and keeping passes (found {n_rm}/{n_keep})")
    # the same purge written with Vec::retain needs no index reasoning (retain examines every element once)
    retained = [n for n, fn in ctx.funcs.items() if "{closure" not in n and n.split("::")[-1].startswith("exec_command_stop")
                and any(re.search(r"Vec::<(?:service_daemon::)?ReRun>::retain", t) for _, t in fn.blocks.values())]
    if sites + len(retained) < 2:
        q.unknown.append(f"expected the purges of stop_browse and stop_resolve_hostname (found {sites} index loops, {len(retained)} retain calls)")
    return q.result()


def c20_not_for_us_paths(ctx):
    q = Q("c20_not_for_us_paths", ["DnsCache::add_or_update"],
          "every explored path of add_or_update (opaque map/vector calls, first loop iterations); is_for_us arbitrary",
          ["map and vector calls are opaque: only which calls happen under which guard is decided"])
    f = ctx.funcs[ctx.fn("::add_or_update", lambda fn: fn.args and fn.args[0][1] == "&mut DnsCache")]
    forus = z3.Bool("is_for_us")
    ex = Explorer(ctx.funcs, ctx.consts, max_paths=3000)
    paths = [p for p in ex.explore(f.name, args=[None, None, None, None, BoolV(forus)]) if p.outcome == "return"]
    if ex.cut_paths:
        q.unknown.append("path budget exhausted")
    n_sub, n_drop = 0, 0
    for i, p in enumerate(paths):
        calls = [e for e in p.events if e[0] == "call"]
        sub_ins = [e for e in calls if e[1].startswith("HashMap::<String, String>::insert")]
        if sub_ins:
            n_sub += 1
            q.valid(p.cond, forus, f"path {i}: the instance->subtype map only grows for records that are for us")
        empt = [e for e in p.events if e[0] == "ret" and e[1].endswith("Vec::<DnsRecordIntf>::is_empty")]
        vec_ins = [e for e in calls if e[1].startswith("Vec::<DnsRecordIntf>::insert")]
        if vec_ins and empt and isinstance(empt[0][2], BoolV):
            # a record is stored: either it is for us, or the name already had records
            q.valid(p.cond, z3.Or(forus, z3.Not(empt[0][2].e)), f"path {i}: a record is only stored if it is for us or refreshes a name we already hold", allow_havoc=True)
        if empt and isinstance(empt[0][2], BoolV) and not vec_ins:
            r0 = q.d.check(p.cond + [z3.Not(forus), empt[0][2].e], f"classify: path {i}: unsolicited-and-unknown case?")[0]
            if r0 == "sat":
                n_drop += 1
                later = [e[1].split("::")[-1] for e in calls if e[1].split("::")[-1] in ("set_expire", "push", "reset_ttl")]
                if later:
                    q.fail.append(("an unsolicited record of an unknown name still changes cache state", f"path {i}: {later}"))
    if n_sub == 0 or n_drop == 0:
        q.unknown.append(f"expected subtype-insert paths and drop paths (found {n_sub}/{n_drop})")
    else:
        q.nontrivial += 2
    return q.result()


def c20_txt_evicted_without_srv(ctx):
    q = Q("c20_txt_evicted_without_srv", ["DnsCache::evict_expired_services"],
          "explored paths of evict_expired_services (first iteration of each loop, opaque map calls)", ["map calls are opaque"])
    f = ctx.funcs[ctx.fn("::evict_expired_services")]
    ex = Explorer(ctx.funcs, ctx.consts, max_paths=3000)
    paths = ex.explore(f.name)
    ok = 0
    seen_gm = 0
    for p in paths:
        ev = p.events
        gms = [j for j, e in enumerate(ev) if e[0] == "call" and e[1].split("::")[-1].startswith("get_mut") and "HashMap" in e[1]]
        if len(gms) < 2:
            continue
        seen_gm += 1
        # discriminant examined right after the first get_mut (SRV entry of the instance)
        d = [e for e in ev[gms[0]:gms[1]] if e[0] == "discr"]
        if not d:
            continue
        srv_none = q.d.check(p.cond + [d[0][3].e != 0], "classify: srv entry absent?")[0] == "unsat"
        retains_after = [e for e in ev[gms[1]:] if e[0] == "call" and e[1].split("::")[-1].startswith("retain")]
        if srv_none and retains_after:
            ok += 1
    if seen_gm == 0:
        q.unknown.append("the SRV/TXT map look-ups were not reached")
    elif ok == 0:
        q.fail.append(("expired TXT records of an instance are only evicted while the instance still has an SRV entry (they stay for ever once the SRV is gone)", "no path evicts TXT when the SRV look-up finds nothing"))
    else:
        q.nontrivial += ok
    return q.result()


def c01_name_cap_operand(ctx):
    q = Q("c01_name_cap_operand", ["DnsIncoming::read_name (the 255-byte name cap)"],
          "every explored path of read_name that appends a label (first loop iteration, opaque slice/UTF-8 calls)",
          ["calls are opaque; the operand compared with MAX_NAME_LEN is traced to the call that produced it"])
    f = ctx.funcs[ctx.fn("::read_name")]
    name_local = f.debug.get("name")
    if not name_local or not re.fullmatch(r"_\d+", name_local):
        q.unknown.append("local `name` not found in read_name")
        return q.result()
    cap = ctx.consts.get("MAX_NAME_LEN")
    if not cap or not cap[0].startswith("255"):
        q.unknown.append(f"MAX_NAME_LEN is {cap}")
        return q.result()
    ex = Explorer(ctx.funcs, ctx.consts, max_paths=1500)
    paths = ex.explore(f.name)
    n = 0
    for i, p in enumerate(paths):
        calls = [e for e in p.events if e[0] == "call"]
        appended = [e for e in calls if "add_assign" in e[1] or e[1].endswith("push_str")]
        if not appended:
            continue
        lens = []
        for j, e in enumerate(p.events):
            if e[0] == "call" and e[1].endswith("String::len") and isinstance(e[2][0], Ref) and isinstance(e[2][0].obj, tuple) and e[2][0].obj[-1] == name_local:
                rets = [r for r in p.events[j:] if r[0] == "ret" and r[1].endswith("String::len")]
                if rets and isinstance(rets[0][2], BV):
                    lens.append(rets[0][2].e)
        ok = False
        for c in p.cond:
            vs = z3_vars(c)
            if any(any(v.eq(l) for l in lens) for v in vs) and "255" in str(c):
                ok = True
        if ok:
            n += 1
        elif p.outcome in ("return",) or p.outcome.startswith("cut"):
            q.fail.append(("a label is appended to the name without the accumulated NAME length being compared with the 255-byte cap (RFC 1035 2.3.4): names can grow out of proportion to the datagram", f"path {i} ({p.outcome})"))
    if n == 0 and not q.fail:
        q.unknown.append("no path appends a label")
    else:
        q.nontrivial += min(n, 2)
    return q.result()


def _producer(p, val):
    """the ('call', name, args, site) event whose return value is `val` (identity / same object), or None"""
    ev = p.events
    for j, e in enumerate(ev):
        if e[0] == "ret":
            rv = e[2]
            same = rv is val or (isinstance(rv, Ref) and isinstance(val, Ref) and rv.obj == val.obj and rv.path == val.path) \
                or (isinstance(rv, BV) and isinstance(val, BV) and rv.e.eq(val.e))
            if same:
                for k in range(j - 1, -1, -1):
                    if ev[k][0] == "call" and ev[k][1] == e[1]:
                        return ev[k]
    return None


def c05_removed_addr_key(ctx):
    q = Q("c05_removed_addr_key", ["DnsCache::evict_expired_addr::{closure}::{closure} (reporting an expired address)"],
          "every path of the closure that reports an expired address", ["calls are opaque; value provenance only"])
    cands = [n for n in ctx.funcs if "::evict_expired_addr::{closure#0}::{closure#0}" in n]
    if len(cands) != 1:
        q.unknown.append(f"closure: {len(cands)} candidates")
        return q.result()
    ex = Explorer(ctx.funcs, ctx.consts, max_paths=300)
    n = 0
    for i, p in enumerate(ex.explore(cands[0])):
        ent = [e for e in p.events if e[0] == "call" and "HashMap" in e[1] and e[1].split("::")[-1] == "entry"]
        if not ent:
            continue
        n += 1
        key = ent[0][2][1]
        ts = _producer(p, key)
        gn = _producer(p, ts[2][0]) if ts and ts[1].endswith("to_string") else None
        if not (gn and gn[1].split("::")[-1] == "get_name"):
            q.fail.append(("an expired address is reported under a name that is not the record's own name (the run loop looks instances up by that name, case-sensitively)",
                           f"path {i}: key produced by {ts[1] if ts else None} <- {gn[1] if gn else None}"))
    if n == 0:
        q.unknown.append("no path reports an expired address")
    else:
        q.nontrivial += n
    return q.result()


def c18_intf_removed_purges_both(ctx):
    q = Q("c18_intf_removed_purges_both", ["Zeroconf::del_interface_addr (which cached addresses are dropped when an interface address goes away)", "IpType::{V4,V6,BOTH}"],
          "every explored path of del_interface_addr; the IP-family operand of DnsCache::remove_addrs_on_disabled_intf as a u8 bit set",
          ["calls are opaque; the family operand is evaluated from the IpType constants", "which call happens on which path is decided"])
    f = ctx.funcs[ctx.fn("::del_interface_addr")]
    ex = Explorer(ctx.funcs, ctx.consts, max_paths=3000)
    paths = ex.explore(f.name)
    if ex.cut_paths:
        q.unknown.append("path budget exhausted in del_interface_addr")
    n_gone = n_part = 0
    for i, p in enumerate(paths):
        if p.outcome != "return":
            continue
        calls = [e for e in p.events if e[0] == "call"]
        gone = any(e[1].endswith("HashMap::<u32, MyIntf>::remove") for e in calls)
        purge = [e for e in calls if e[1].endswith("remove_addrs_on_disabled_intf")]
        fam = None
        if purge and len(purge[0][2]) >= 3:
            a = purge[0][2][2]
            fam = a.items[0] if isinstance(a, (Adt, Tup)) and a.items and isinstance(a.items[0], BV) else None
        if gone:
            n_gone += 1
            if not purge:
                q.fail.append(("an interface is removed but the addresses learned on it stay in the cache", f"path {i}"))
            elif fam is None:
                q.unknown.append(f"path {i}: IP-family operand not resolved")
            else:
                q.valid(p.cond, fam.e == 3, f"path {i}: when the interface itself is removed, addresses of BOTH families learned on it are dropped", fam.taint)
                if n_gone == 1:
                    q.witness(p.cond, f"path {i}: interface removed")
        elif purge:
            n_part += 1
            if fam is None:
                q.unknown.append(f"path {i}: IP-family operand not resolved")
            else:
                q.valid(p.cond, z3.Or(fam.e == 1, fam.e == 2), f"path {i}: while the interface stays, only the family that lost its last address is dropped", fam.taint)
    if n_gone == 0 or n_part == 0:
        q.unknown.append(f"expected paths removing the interface and paths dropping one family (found {n_gone}/{n_part})")
    return q.result()


def c18_deleted_before_added(ctx):
    q = Q("c18_deleted_before_added", ["Zeroconf::check_ip_changes (window: from the return of apply_intf_selections to the end of the function)"],
          "every path from the point where newly found addresses have been added to the end of check_ip_changes; all calls opaque",
          ["window slice", "calls are opaque; which call happens on which path is decided"])
    f = ctx.funcs[ctx.fn("::check_ip_changes")]
    blk = _block_after_call(f, r"apply_intf_selections$")
    has_del = any(re.search(r"= (?:\w+::)*Zeroconf::del_ip\(", t) for _, t in f.blocks.values())
    if blk is None or not has_del:
        q.unknown.append("anchor not found: check_ip_changes calls both del_ip (vanished addresses) and apply_intf_selections (new addresses)")
        return q.result()
    ex = Explorer(ctx.funcs, ctx.consts, max_paths=2000)
    paths = ex.explore(f.name, start_block=blk[0])
    if ex.cut_paths:
        q.unknown.append("path budget exhausted after apply_intf_selections")
    done = [p for p in paths if p.outcome == "return" or p.outcome.startswith("cut:loop")]
    if not done:
        q.unknown.append("no path from apply_intf_selections to the end of check_ip_changes")
    for i, p in enumerate(done):
        if any(e[0] == "call" and e[1].endswith("::del_ip") for e in p.events):
            q.fail.append(("addresses that vanished are withdrawn from the services AFTER the new addresses were added: an address that moved to another interface (or changed its prefix) within one check is added and then deleted",
                           f"path {i}"))
            break
    q.nontrivial += 1
    return q.result()


def c18_affected_host_lowercase(ctx):
    q = Q("c18_affected_host_lowercase", ["DnsCache::remove_records_on_intf (mapping hosts that lost addresses back to instances)"],
          "every explored path of remove_records_on_intf that looks an SRV target up in the set of affected hosts", ["calls are opaque; value provenance only"])
    f = ctx.funcs[ctx.fn("::remove_records_on_intf")]
    # window: start right after DnsSrv::host() is obtained is not needed - the look-up is reached in the first iteration
    ex = Explorer(ctx.funcs, ctx.consts, max_paths=4000, stop_calls=())
    n = 0
    blk = _block_after_call(f, r"DnsSrv::host")
    if blk is None:
        q.unknown.append("DnsSrv::host not called in remove_records_on_intf")
        return q.result()
    hb = [b for b in f.blocks if re.search(r"DnsSrv::host\(", f.blocks[b][1])][0]
    paths = ex.explore(f.name, start_block=hb)
    for i, p in enumerate(paths):
        calls = [e for e in p.events if e[0] == "call"]
        if not calls or not calls[0][1].endswith("DnsSrv::host"):
            continue
        cont = [e for e in calls if e[1].split("::")[-1] == "contains" and "HashSet::<String>" in e[1]]
        if not cont:
            continue
        n += 1
        arg = cont[0][2][1]
        prod = None
        # the argument is a reference to a local holding the lowered String
        v = _deref_val(p, arg) if isinstance(arg, Ref) else arg
        prod = _producer(p, v if v is not None else arg)
        if not (prod and prod[1].endswith("to_lowercase")):
            q.fail.append(("the SRV target host is looked up in the (lower-cased) set of affected hosts without being lower-cased: instances on a mixed-case host are not resolved again after an interface loses their address",
                           f"path {i}: look-up key produced by {prod[1] if prod else None}"))
        break
    if n == 0:
        q.unknown.append("affected-host look-up not reached")
    else:
        q.nontrivial += 1
    return q.result()


def c16_decode_txt_step(ctx):
    q = Q("c16_decode_txt_step", ["service_info::decode_txt (one loop iteration from an arbitrary loop-head state)", "decode_txt::{closure#2} (key/value split)"],
          "the inductive step: ANY record length (usize < 2^62), ANY offset <= length at the loop head, ANY bytes; one iteration to the back edge or the exit - covers records of every size",
          ["slice element reads return arbitrary bytes", "loop-head invariant offset <= len (checked to be preserved)", "Iterator::position returns an index inside the slice (its contract)"])
    f = ctx.funcs[ctx.fn("service_info::decode_txt")] if "service_info::decode_txt" in ctx.funcs else ctx.funcs[ctx.fn("::decode_txt")]
    off_local = f.debug.get("offset")
    # loop head = target of the back edge: the block that compares offset with PtrMetadata(txt)
    head = None
    for b, (st, t) in f.blocks.items():
        m = re.match(r"goto -> (bb\d+);", t)
        if m and int(m.group(1)[2:]) < int(b[2:]) and "(cleanup)" not in t:
            head = m.group(1)   # target of the back edge
            break
    if not head or not off_local:
        q.unknown.append("loop head / offset local of decode_txt not found")
        return q.result()
    off = z3.BitVec("offset", 64)
    txt = ("txt", 0)
    ex = Explorer(ctx.funcs, ctx.consts, max_visits=1, max_paths=500)
    paths = ex.explore(f.name, args=[Ref(txt, (), mutable=False)], start_block=head, locals_={off_local: BV(off, 64)}, objs={txt: {}})
    if ex.unknown_constructs:
        q.notes.append("unmodelled: " + "; ".join(sorted(set(ex.unknown_constructs))[:4]))
    n_back, n_exit, inline_split = 0, 0, 0
    for i, p in enumerate(paths):
        ln = p.acc.get(("len", txt, ()))
        if ln is None:
            q.unknown.append(f"path {i}: the record length is never consulted")
            continue
        inv = [z3.ULE(off, ln.e), z3.ULT(ln.e, TWO62)]
        pos = [e[2] for e in p.events if e[0] == "position"]
        inv += [z3.ULT(x.e, TWO62) for x in pos]   # position()'s contract: an index into a slice
        if p.outcome.startswith("panic"):
            q.unsat(inv + p.cond, f"decode_txt panics ({p.outcome[6:46]})")
            continue
        for e in p.events:
            if e[0] == "call" and "Index<" in e[1] and e[1].endswith("::index"):
                rng = e[2][1]
                if isinstance(rng, Adt) and "Range" in rng.name and len(rng.items) == 2:
                    a, b = rng.items
                    q.valid(inv + p.cond, z3.And(z3.ULE(a.e, b.e), z3.ULE(b.e, ln.e)), f"path {i}: the slice taken for one string lies inside the record", a.taint or b.taint)
                elif isinstance(rng, Adt) and len(pos) == 1 and len(rng.items) == 1 and ("RangeTo" in rng.name or "RangeFrom" in rng.name):
                    # key/value split written in decode_txt itself (no map_or_else closure)
                    inline_split += 1
                    if "RangeTo" in rng.name:
                        q.valid(inv + p.cond, rng.items[0].e == pos[0].e, "key = bytes before the first '='", rng.items[0].taint)
                    else:
                        q.valid(inv + p.cond, rng.items[0].e == pos[0].e + 1, "value = bytes after the first '=' (the '=' itself dropped)", rng.items[0].taint)
                else:
                    q.unknown.append(f"path {i}: slice range not resolved")
        if p.outcome.startswith("cut:loop"):
            n_back += 1
            # state at the back edge: the frame's offset local was updated on this path: it is the last value written
            new_off = getattr(p, "final_locals", {}).get(off_local)
            if new_off is None:
                q.unknown.append(f"path {i}: offset at the back edge not available")
                continue
            q.valid(inv + p.cond, z3.UGT(new_off.e, off), f"path {i}: every iteration consumes at least one byte (termination)", new_off.taint)
            q.valid(inv + p.cond, z3.ULE(new_off.e, ln.e), f"path {i}: the offset never passes the end of the record (invariant preserved)", new_off.taint)
            q.witness(inv + p.cond, f"path {i}: iteration")
        elif p.outcome == "return":
            n_exit += 1
    if n_back == 0 or n_exit == 0:
        q.unknown.append(f"expected iterating and exiting paths (found {n_back}/{n_exit})")
    # key/value split closure: idx inside the slice => both sub-slices inside
    c2 = [n for n in ctx.funcs if n.endswith("service_info::decode_txt::{closure#2}")]
    if len(c2) == 1:
        idx = z3.BitVec("idx", 64)
        kv = ("kv", 0)
        env = Tup([Ref(("cell", 0), (), mutable=False)])
        ex2 = Explorer(ctx.funcs, ctx.consts, max_paths=50)
        for i, p in enumerate(ex2.explore(c2[0], args=[env, BV(idx, 64)], objs={("cell", 0): {(): Ref(kv, (), mutable=False)}, kv: {}})):
            # the slice length: modelled through the range checks only; idx < len is position()'s contract
            if p.outcome.startswith("panic"):
                q.unsat(p.cond + [z3.ULT(idx, TWO62)], "key/value split overflows")
            for e in p.events:
                if e[0] == "call" and e[1].endswith("::index") and isinstance(e[2][1], Adt):
                    r = e[2][1]
                    if "RangeTo" in r.name:
                        q.valid(p.cond, r.items[0].e == idx, "key = bytes before the first '='", r.items[0].taint)
                    elif "RangeFrom" in r.name:
                        q.valid(p.cond + [z3.ULT(idx, TWO62)], r.items[0].e == idx + 1, "value = bytes after the first '=' (the '=' itself dropped)", r.items[0].taint)
    elif inline_split < 2:
        q.unknown.append("key/value split not found (neither the map_or_else closure nor a match on position() in decode_txt)")
    return q.result()


def _direct_callers(ctx, callee_pat, exclude=()):
    out = []
    for name, fn in ctx.funcs.items():
        if any(name.endswith(x) for x in exclude) or "::tests::" in name or "verif_" in name:
            continue
        if any(re.search(callee_pat, t) for _, t in fn.blocks.values()):
            out.append(name)
    return sorted(out)


def c16_prop_len_check(ctx):
    q = Q("c16_prop_len_check", ["ServiceInfo::new (window: one pass of the loop over the TXT properties)", "ServiceInfo::new::{closure} (value length + 1)", "TxtProperty::key / TxtProperty::val (by signature)"],
          "one pass of the validation loop for an arbitrary property: key length and raw value length any usize < 2^62, value present or absent; every path that accepts the property",
          ["window slice", "TxtProperty::key returns the key string, TxtProperty::val the raw value bytes or None (their signatures)", "is_ascii / contains / format are opaque"])
    cands = [n for n in ctx.funcs if re.search(r"service_info::<impl at [^>]*>::new$", n) and ctx.funcs[n].ret.startswith("Result<ServiceInfo") or
             (n.endswith("::new") and "ServiceInfo" in ctx.funcs[n].ret and "Result" in ctx.funcs[n].ret)]
    cands = sorted(set(cands))
    if len(cands) != 1:
        q.unknown.append(f"ServiceInfo::new: {len(cands)} candidates")
        return q.result()
    f = ctx.funcs[cands[0]]
    nxt = None
    for b, (stmts, t) in f.blocks.items():
        m = re.match(r"(_\d+) = <std::slice::Iter<'_, (?:service_info::)?TxtProperty> as Iterator>::next\(", t)
        if m:
            nxt = m.group(1)
    start = None
    if nxt:
        for b, (stmts, t) in f.blocks.items():
            if any(re.search(r"\(\(%s as Some\)\.0" % nxt, x) for x in stmts):
                start = b
    if not start:
        q.unknown.append("anchor not found: the loop over the TXT properties in ServiceInfo::new")
        return q.result()
    prop, keyo, valo = ("prop", 0), ("keystr", 0), ("valbytes", 0)
    has_val = z3.BitVec("value_present", 64)

    def m_key(st, args):
        return Ref(keyo, (), mutable=False)

    def m_val(st, args):
        return Adt("Option::Some?", [Ref(valo, (), mutable=False)], discr=has_val)
    ex = Explorer(ctx.funcs, ctx.consts, stop_calls=("TxtProperty> as Iterator>::next",), max_paths=800)
    ex.call_models = {"TxtProperty::key": m_key, "TxtProperty::val": m_val}
    paths = ex.explore(f.name, start_block=start, locals_={nxt: Adt("Some", [Ref(prop, (), mutable=False)])},
                       objs={prop: {}, keyo: {}, valo: {}}, assumptions=[z3.ULE(has_val, z3.BitVecVal(1, 64))])
    if ex.cut_paths:
        q.unknown.append("path budget exhausted in the property loop of ServiceInfo::new")
    n_acc = 0
    for i, p in enumerate(paths):
        lk = p.acc.get(("len", keyo, ()))
        lv = p.acc.get(("len", valo, ()))
        lkv = lk.e if lk is not None else z3.BitVec("key_len_unread", 64)
        lvv = lv.e if lv is not None else z3.BitVec("value_len_unread", 64)
        pre = p.cond + [z3.ULT(lkv, TWO62), z3.ULT(lvv, TWO62)]
        if p.outcome.startswith("panic"):
            q.unsat(pre, "length check panics: " + p.outcome[6:40])
            continue
        if not p.outcome.startswith("stop:"):
            continue   # the property was refused (Err) or the function went on
        n_acc += 1
        wire = lkv + z3.If(has_val == 1, lvv + 1, z3.BitVecVal(0, 64))
        q.valid(pre, z3.ULE(wire, 255), f"path {i}: an accepted property fits one TXT string: key + ('=' + raw value bytes, if any) <= 255 bytes")
        q.witness(pre, f"path {i}: accepted")
    if n_acc == 0:
        q.unknown.append("no path accepts a property")
    return q.result()


def c16_first_key_wins(ctx):
    q = Q("c16_first_key_wins", ["service_info::decode_txt_unique", "decode_txt_unique::{closure#0}"],
          "call structure of decode_txt_unique and its retain closure", ["calls are opaque; provenance only"])
    names = [n for n in ctx.funcs if n.endswith("decode_txt_unique")]
    clos = [n for n in ctx.funcs if "decode_txt_unique::{closure#0}" in n]
    if len(names) != 1:
        q.unknown.append("decode_txt_unique not found")
        return q.result()
    ex = Explorer(ctx.funcs, ctx.consts, max_paths=100)
    rets = [p for p in ex.explore(names[0]) if p.outcome == "return"]
    if not rets:
        q.unknown.append("no returning path")
    for i, p in enumerate(rets):
        calls = [e[1] for e in p.events if e[0] == "call"]
        if not any(c.endswith("decode_txt") for c in calls):
            q.fail.append(("decode_txt_unique does not decode", f"path {i}"))
        if not any("retain" in c.split("::")[-1] for c in calls):
            q.fail.append(("duplicate keys are not filtered over the WHOLE list (only the first occurrence of a key may be kept, wherever the repeats are)", f"path {i}: calls {[c.split('::')[-1] for c in calls]}"))
    # received TXT data reaches the API only through the de-duplicating decoder
    direct = [n for n in _direct_callers(ctx, r"= (?:\w+::)*decode_txt\(", exclude=("decode_txt_unique", "::rdata_print", "::fmt"))]   # printing is not API data
    if direct:
        q.fail.append(("TXT bytes are decoded without dropping repeated keys on a path that feeds the public API (every occurrence of a key is reported, the last one wins in a map)",
                       "decode_txt called directly by: " + ", ".join(d.split("::")[-2] + "::" + d.split("::")[-1] for d in direct)))
    if not _direct_callers(ctx, r"= (?:\w+::)*decode_txt_unique\("):
        q.unknown.append("no caller of decode_txt_unique found")
    if len(clos) != 1:
        q.fail.append(("no per-property filter closure", "decode_txt_unique::{closure#0} missing"))
        return q.result()
    ex2 = Explorer(ctx.funcs, ctx.consts, max_paths=50)
    for i, p in enumerate(pp for pp in ex2.explore(clos[0]) if pp.outcome == "return"):
        ins = [e for e in p.events if e[0] == "call" and e[1].split("::")[-1] == "insert" and "HashSet" in e[1]]
        if not ins:
            q.fail.append(("the filter does not consult the set of keys seen so far", f"closure path {i}"))
            continue
        prod = _producer(p, ins[0][2][1])
        if not (prod and prod[1].endswith("to_lowercase")):
            q.fail.append(("keys are not compared case-insensitively when dropping duplicates", f"closure path {i}: key produced by {prod[1] if prod else None}"))
        rv = [e for e in p.events if e[0] == "ret" and e[1].split("::")[-1] == "insert"]
        if rv and isinstance(p.ret, BoolV) and isinstance(rv[0][2], BoolV):
            q.valid(p.cond, p.ret.e == rv[0][2].e, f"closure path {i}: a property is kept iff its key is new", allow_havoc=True)
            q.nontrivial += 1
    return q.result()


def c08_rename_by_record_kind(ctx):
    q = Q("c08_rename_by_record_kind", ["Zeroconf::conflict_handler::{closure} (choosing the new name for a conflicting record)"],
          "every path of the closure that renames; the record type arbitrary", ["calls are opaque; the type test is an opaque switch explored on every target"])
    cands = [n for n in ctx.funcs if "::conflict_handler::{closure#" in n and any("hostname_change(" in t or "name_change(" in t for _, (st, t) in ctx.funcs[n].blocks.items())]
    if len(cands) != 1:
        q.unknown.append(f"renaming closure: {len(cands)} candidates")
        return q.result()
    f = ctx.funcs[cands[0]]
    ex = Explorer(ctx.funcs, ctx.consts, pure_accessors={"get_type"}, max_paths=600)
    kinds = {}
    for p in ex.explore(f.name):
        calls = [e[1].split("::")[-1] for e in p.events if e[0] == "call"]
        change = [c for c in calls if c in ("hostname_change", "name_change")]
        if not change:
            continue
        idx = max(j for j, e in enumerate(p.events) if e[0] == "call" and e[1].split("::")[-1] in ("hostname_change", "name_change"))
        ds = [e for e in p.events[:idx] if e[0] == "discr"]
        if not ds:
            q.unknown.append("the record type is not consulted before renaming")
            continue
        e = ds[-1][3].e
        for name, val in (("A", 1), ("AAAA", 28), ("SRV", 33), ("TXT", 16), ("PTR", 12)):
            r, _ = q.d.check(p.cond + [e == z3.BitVecVal(val, e.size())], f"classify: kind {name} -> {change[0]}?")
            if r == "sat":
                kinds.setdefault(name, set()).add(change[0])
    want = {"A": {"hostname_change"}, "AAAA": {"hostname_change"}, "SRV": {"name_change"}, "TXT": {"name_change"}}
    for k, w in want.items():
        if kinds.get(k) != w:
            q.fail.append((f"a conflict on a {k} record must be resolved with {sorted(w)[0]} (host names get '-N', instance names ' (N)'; the two address families must agree)", f"{k} -> {sorted(kinds.get(k, []))}"))
    if kinds:
        q.nontrivial += len(kinds)
    else:
        q.unknown.append("no renaming path")
    return q.result()


def c06_answer_only_when_announced(ctx):
    q = Q("c06_answer_only_when_announced", ["Zeroconf::handle_query (windows: one pass of each loop over my_services, and the instance-name branch)"],
          "every path from a service being picked to the next service / question; the service's status on the interface: any variant",
          ["window slices", "name matching, address selection and the answer builders are opaque", "get_status is a pure accessor of the service"])
    f = ctx.funcs[ctx.fn("::handle_query")]
    wins = []
    for b, (stmts, t) in f.blocks.items():
        m = re.match(r"(_\d+) = <std::collections::hash_map::Values<'_, String, ServiceInfo> as Iterator>::next\(", t)
        if m:
            for b2, (st2, t2) in f.blocks.items():
                if any(re.search(r"\(\(%s as Some\)\.0" % m.group(1), x) for x in st2):
                    wins.append((b2, {m.group(1): Adt("Some", [Ref(("service", len(wins)), (), mutable=False)])}, "Values<'_, String, ServiceInfo> as Iterator>::next", f"services loop at {b}"))
        if re.search(r"= Option::<\(&String, &ServiceInfo\)>::map::<&ServiceInfo", t):
            rb = re.search(r"return: (bb\d+)", t)
            if rb:
                wins.append((rb.group(1), None, "Iter<'_, DnsQuestion> as Iterator>::next", f"instance-name branch after {b}"))
    if len(wins) < 3:
        q.unknown.append(f"expected the two loops over my_services and the instance-name branch in handle_query (found {len(wins)} windows)")
    from mirslice import ENUM_IDS
    for start, loc, stop, tag in wins:
        ex = Explorer(ctx.funcs, ctx.consts, stop_calls=(stop,), pure_accessors={"get_status"}, max_paths=3000)
        ex.enum_accessors = {"get_status"}
        paths = ex.explore(f.name, start_block=start, locals_=loc)
        if ex.cut_paths:
            q.unknown.append(f"{tag}: path budget exhausted")
        ann = z3.BitVecVal(ENUM_IDS.setdefault("ServiceStatus::Announced", 40000 + len(ENUM_IDS)) & 0xFFFF, 16)
        n_ans = 0
        for i, p in enumerate(paths):
            if not (p.outcome.startswith("stop:") or p.outcome == "return" or p.outcome.startswith("cut:loop")):
                continue
            adds = [e for e in p.events if e[0] == "call" and re.search(r"(DnsOutgoing::add_answer\w*|add_answer_of_service\w*)$", e[1])]
            if not adds:
                continue
            n_ans += 1
            st_ = [v for k, v in p.acc.items() if k[0] == "get_status"]
            if not st_:
                q.fail.append(("an answer about a registered service is added without looking at its status on the receiving interface (services still probing, or without an address on that link, are answered for)",
                               f"{tag}: path {i}: {adds[0][1].split('::')[-1]} at {adds[0][3]}"))
                continue
            q.valid(p.cond, z3.Or(*[v.e == ann for v in st_]), f"{tag}: path {i}: an answer is only added for a service whose status on this interface is Announced", allow_havoc=True)
            if n_ans == 1:
                q.witness(p.cond, f"{tag}: path {i}")
        if n_ans == 0:
            q.unknown.append(f"{tag}: no path adds an answer")
    q.fail = q.fail[:6]
    return q.result()


def c06_address_families_by_qtype(ctx):
    q = Q("c06_address_families_by_qtype", ["Zeroconf::handle_query (window: one pass of the address-question loop over my_services)"],
          "one pass of the loop for an arbitrary service; question type: any RRType variant; every path that adds an address answer or gives up",
          ["window slice", "the question type is the local `qtype` (symbolic over all variants)", "name comparison and address getters are opaque"])
    f = ctx.funcs[ctx.fn("::handle_query")]
    ql = f.debug.get("qtype")
    win = None
    for b, (stmts, t) in f.blocks.items():
        m = re.match(r"(_\d+) = <std::collections::hash_map::Values<'_, String, ServiceInfo> as Iterator>::next\(", t)
        if m:
            for b2, (st2, t2) in f.blocks.items():
                if any(re.search(r"\(\(%s as Some\)\.0" % m.group(1), x) for x in st2):
                    # the address loop is the one from which get_addrs_on_my_intf_v4 is reachable before the next service
                    ex0 = Explorer(ctx.funcs, ctx.consts, stop_calls=("Values<'_, String, ServiceInfo> as Iterator>::next",), max_paths=1500)
                    ps = ex0.explore(f.name, start_block=b2, locals_={m.group(1): Adt("Some", [Ref(("service", 9), (), mutable=False)])})
                    if any(e[0] == "call" and e[1].endswith("get_addrs_on_my_intf_v4") for p in ps for e in p.events):
                        win = (b2, m.group(1))
    if win is None or not ql or not re.fullmatch(r"_\d+", ql):
        q.unknown.append("anchor not found: the address-question loop of handle_query / the local `qtype`")
        return q.result()
    from mirslice import ENUM_IDS
    qt = z3.BitVec("qtype", 16)
    ex = Explorer(ctx.funcs, ctx.consts, stop_calls=("Values<'_, String, ServiceInfo> as Iterator>::next",), max_paths=3000)
    paths = ex.explore(f.name, start_block=win[0], locals_={win[1]: Adt("Some", [Ref(("service", 9), (), mutable=False)]), ql: BV(qt, 16)})
    if ex.cut_paths:
        q.unknown.append("path budget exhausted in the address-question loop")
    ids = {k: z3.BitVecVal(ENUM_IDS.setdefault("RRType::" + k, 40000 + len(ENUM_IDS)) & 0xFFFF, 16) for k in ("A", "AAAA", "ANY")}
    n = 0
    for i, p in enumerate(paths):
        if not (p.outcome.startswith("stop:") or p.outcome.startswith("cut:loop")):
            continue
        calls = [e[1].split("::")[-1] for e in p.events if e[0] == "call"]
        v4, v6 = "get_addrs_on_my_intf_v4" in calls, "get_addrs_on_my_intf_v6" in calls
        if not (v4 or v6):
            continue
        n += 1
        # which question types can take this path?
        for k, want in (("A", (True, False)), ("AAAA", (False, True)), ("ANY", (True, True))):
            if (v4, v6) != want and q.d.check(p.cond + [qt == ids[k]], f"classify: can a {k} question take path {i}?")[0] != "unsat":
                q.fail.append((f"a question of type {k} on a host name is answered from the wrong address families (IPv4 looked up: {v4}, IPv6 looked up: {v6})", f"path {i}"))
        if ex.feasible(p.cond + [z3.Or(*[qt == v for v in ids.values()])]):
            q.nontrivial += 1   # (paths only other question types could take lie outside the enclosing A|AAAA|ANY guard)
    if n == 0:
        q.unknown.append("no path of the address-question loop looks addresses up")
    else:
        q.nontrivial += 1
    q.fail = q.fail[:4]
    return q.result()


def c06_additionals_use_resolved_names(ctx):
    q = Q("c06_additionals_use_resolved_names", ["DnsOutgoing::add_answer_with_additionals (which name each record of a PTR answer is built with)"],
          "every explored path of add_answer_with_additionals (first pass of the address loop); all calls opaque",
          ["calls are opaque; value provenance only: which call produced the name handed to each record constructor"])
    f = ctx.funcs[ctx.fn("::add_answer_with_additionals")]
    ex = Explorer(ctx.funcs, ctx.consts, max_paths=3000)
    paths = ex.explore(f.name)
    if ex.cut_paths:
        q.unknown.append("path budget exhausted in add_answer_with_additionals")

    def resolved(p, v, depth=0):
        """v was returned by DnsRegistry::resolve_name, or is a to_string()/to_owned()/clone() of such a value"""
        prod = _producer(p, v)
        if prod is None and isinstance(v, Ref):
            dv = _deref_val(p, v)
            prod = _producer(p, dv) if dv is not None else None
        if prod is None:
            return False
        if prod[1].endswith("resolve_name"):
            return True
        if depth < 3 and prod[1].split("::")[-1] in ("to_string", "to_owned", "clone", "into", "from") and prod[2]:
            return resolved(p, prod[2][0], depth + 1)
        return False
    seen = {}
    for i, p in enumerate(paths):
        if not (p.outcome == "return" or p.outcome.startswith("cut:loop")):
            continue
        for e in p.events:
            if e[0] != "call":
                continue
            short = "::".join(e[1].split("::")[-2:])
            which = {"DnsSrv::new": (0, "SRV owner"), "DnsTxt::new": (0, "TXT owner"), "DnsAddress::new": (0, "address owner"),
                     "DnsPointer::new": (4, "PTR target")}.get(short)
            if which is None or len(e[2]) <= which[0]:
                continue
            ok = resolved(p, e[2][which[0]])
            seen[which[1]] = seen.get(which[1], 0) + 1
            if not ok:
                q.fail.append((f"the {which[1]} name of a PTR answer is not the name the registry resolved (after a conflict rename the record still carries the abandoned name)",
                               f"path {i}: {short} at {e[3]}"))
            if short == "DnsSrv::new" and len(e[2]) > 6 and not resolved(p, e[2][6]):
                q.fail.append(("the SRV target host of a PTR answer is not the host name the registry resolved", f"path {i}: {short} at {e[3]}"))
    for need in ("SRV owner", "TXT owner", "address owner", "PTR target"):
        if not seen.get(need):
            q.unknown.append(f"no explored path builds the {need} record")
    q.fail = q.fail[:6]
    q.nontrivial += len(seen)
    return q.result()


def _resolved_name(p, v, depth=0):
    """v was returned by DnsRegistry::resolve_name, or is a to_string()/to_owned()/clone() of such a value"""
    prod = _producer(p, v)
    if prod is None and isinstance(v, Ref):
        dv = _deref_val(p, v)
        prod = _producer(p, dv) if dv is not None else None
    if prod is None:
        return False
    if prod[1].endswith("resolve_name"):
        return True
    if depth < 3 and prod[1].split("::")[-1] in ("to_string", "to_owned", "clone", "into", "from") and prod[2]:
        return _resolved_name(p, prod[2][0], depth + 1)
    return False


def c08_packets_use_resolved_names(ctx):
    q = Q("c08_packets_use_resolved_names", ["Zeroconf::unregister_service (goodbye)", "the function that builds direct SRV/TXT answers (add_answer_of_service*) and its call site in Zeroconf::handle_query"],
          "every explored path of the two packet builders (first pass of the address loops); all calls opaque",
          ["calls are opaque; value provenance only: which call produced the name handed to each record constructor",
           "a name that is a parameter of the builder is traced one level up, to the call sites in the crate"])
    WHICH = {"DnsSrv::new": [(0, "SRV owner"), (6, "SRV target host")], "DnsTxt::new": [(0, "TXT owner")],
             "DnsAddress::new": [(0, "address owner")], "DnsPointer::new": [(4, "PTR target")]}

    def param_resolved_by_callers(fn, v):
        """v is the untouched value of parameter k of fn: every non-test caller passes the result of resolve_name"""
        if not (isinstance(v, Ref) and isinstance(v.obj, tuple) and v.obj and v.obj[0] == "arg" and v.path == ()):
            return None
        k = [l for l, _ in fn.args].index(v.obj[2]) if v.obj[2] in [l for l, _ in fn.args] else None
        if k is None:
            return None
        short = fn.name.split("::")[-1]
        sites = ok = 0
        for name, g in ctx.funcs.items():
            for b, (stmts, t) in g.blocks.items():
                m = re.match(r"(?:_\d+ = )?(?:\w+::)*%s\((.*)\) -> " % re.escape(short), t)
                if not m:
                    continue
                ops = [x.strip() for x in m.group(1).split(", ")]
                if k >= len(ops):
                    continue
                sites += 1
                loc = re.sub(r"^(copy|move) ", "", ops[k])
                defs = [t2 for _, t2 in g.blocks.values() if t2.startswith(loc + " = ")]
                if len(defs) == 1 and "resolve_name(" in defs[0]:
                    ok += 1
        return sites > 0 and ok == sites
    builders = [n for n in ctx.funcs if n.endswith("::unregister_service")]
    direct = [n for n in ctx.funcs if re.search(r"(^|::)add_answer_of_service\w*$", n)
              and any("DnsSrv::new(" in t for _, t in ctx.funcs[n].blocks.values())]
    if len(builders) != 1 or len(direct) != 1:
        q.unknown.append(f"packet builders not found (unregister_service: {len(builders)}, direct-answer builder: {len(direct)})")
        return q.result()
    for name in builders + direct:
        fn = ctx.funcs[name]
        tag = name.split("::")[-1]
        ex = Explorer(ctx.funcs, ctx.consts, max_paths=3000)
        paths = ex.explore(fn.name)
        if ex.cut_paths:
            q.unknown.append(f"{tag}: path budget exhausted")
        seen, bad = set(), {}
        for i, p in enumerate(paths):
            if not (p.outcome == "return" or p.outcome.startswith("cut:loop")):
                continue
            cn = [e[1] for e in p.events if e[0] == "call"]
            if any(c.endswith("HashMap::<u32, DnsRegistry>::get") for c in cn) and not any(c.endswith("resolve_name") for c in cn):
                continue   # no registry for this interface (look-up returned None): nothing was renamed there
            for e in p.events:
                if e[0] != "call":
                    continue
                short = "::".join(e[1].split("::")[-2:])
                for idx, what in WHICH.get(short, []):
                    if len(e[2]) <= idx:
                        continue
                    if name in direct and what in ("SRV owner", "TXT owner"):
                        continue   # the owner of a direct answer is the question's name, which matched the resolved instance name
                    seen.add(what)
                    v = e[2][idx]
                    ok = _resolved_name(p, v)
                    if not ok:
                        # a to_string() of a parameter, or the parameter itself
                        base = v
                        prod = _producer(p, v)
                        if prod and prod[1].split("::")[-1] in ("to_string", "to_owned") and prod[2]:
                            base = prod[2][0]
                        ok = bool(param_resolved_by_callers(fn, base))
                    if not ok:
                        bad.setdefault(what, f"path {i}: {short} at {e[3]}")
        for what, where in sorted(bad.items()):
            q.fail.append((f"{tag}: the {what} is not the name the registry resolved: after a conflict rename this packet still carries the abandoned name", where))
        need = ("SRV owner", "SRV target host", "TXT owner", "address owner", "PTR target") if name in builders else ("SRV target host", "address owner")
        for w in need:
            if w not in seen:
                q.unknown.append(f"{tag}: no explored path builds the {w}")
        q.nontrivial += len(seen)
    return q.result()


def c08_answer_uses_resolved_host(ctx):
    q = Q("c08_answer_uses_resolved_host", ["Zeroconf::handle_query (address answers for a host question)"],
          "every DnsAddress::new call site of handle_query (static def-use of the owner-name operand in MIR)", ["MIR locals holding call results are assigned once"])
    f = ctx.funcs[ctx.fn("::handle_query")]
    defs = {}
    for b, (st, t) in f.blocks.items():
        m = re.match(r"(_\d+) = (.+?)\((.*)\) -> ", t, re.S)
        if m:
            defs.setdefault(m.group(1), []).append(m.group(2))
        for x in st:
            m2 = re.match(r"(_\d+) = (?:copy|move) (_\d+);", x)
            if m2:
                defs.setdefault(m2.group(1), []).append("=" + m2.group(2))
    sites = 0
    for b, (st, t) in f.blocks.items():
        m = re.match(r"(_\d+) = DnsAddress::new\((?:copy|move) (_\d+),", t)
        if not m:
            continue
        sites += 1
        loc = m.group(2)
        seen = set()
        while loc in defs and len(defs[loc]) == 1 and defs[loc][0].startswith("=") and loc not in seen:
            seen.add(loc)
            loc = defs[loc][0][1:]
        prod = defs.get(loc, [])
        if len(prod) == 1 and prod[0].endswith("resolve_name"):
            q.nontrivial += 1
        else:
            q.fail.append(("an address answer is built under a host name that did not go through the registry's name resolution (after a host rename the answer would carry the old name)",
                           f"block {b}: owner operand {m.group(2)} is produced by {prod}"))
    if sites == 0:
        q.unknown.append("no DnsAddress::new call in handle_query")
    return q.result()


def z3_vars(e):
    out, seen, stack = [], set(), [e]
    while stack:
        x = stack.pop()
        if x.get_id() in seen:
            continue
        seen.add(x.get_id())
        if z3.is_const(x) and x.decl().kind() == z3.Z3_OP_UNINTERPRETED:
            out.append(x)
        stack.extend(x.children())
    return out


def c12_poll_timeout(ctx):
    q = Q("c12_poll_timeout", ["Zeroconf::run::{closure} (poll timeout from the earliest timer)"],
          "every earliest timer value and every now (u64 x u64)", [])
    cands = [n for n, f in ctx.funcs.items() if "::run::{closure#" in n and f.ret.endswith("Duration")]
    if len(cands) != 1:
        q.unknown.append(f"timeout closure: {len(cands)} candidates")
        return q.result()
    f = ctx.funcs[cands[0]]
    timer, now = z3.BitVec("timer", 64), z3.BitVec("now", 64)
    oid = ("clo", next(_fresh))
    # closure environment: (_1.0: &u64) -> now
    env = Tup([Ref(("nowcell", 0), ())])
    ex = Explorer(ctx.funcs, ctx.consts, stop_calls=("Duration::from_millis",))
    paths = ex.explore(f.name, args=[env, BV(timer, 64)], objs={("nowcell", 0): {(): BV(now, 64)}})
    hits = [p for p in paths if p.outcome.startswith("stop")]
    if not hits or ex.unknown_constructs:
        q.unknown.append("closure not translated: " + "; ".join(ex.unknown_constructs[:3]))
    for p in paths:
        if p.outcome.startswith("panic"):
            q.unsat(p.cond, "timeout computation panics")
    for i, p in enumerate(hits):
        ms = p.events[-1][2][0]
        q.valid(p.cond, z3.UGE(ms.e, 1), f"path {i}: poll timeout is at least 1 ms (no zero-timeout busy loop)", ms.taint)
        q.valid(p.cond, ms.e == z3.If(z3.UGT(timer, now), timer - now, U64(1)), f"path {i}: timeout == time until the earliest timer", ms.taint)
        q.valid(p.cond, z3.Implies(z3.UGT(timer, now), z3.ULE(now + ms.e, timer)), f"path {i}: wakes no later than the timer", ms.taint)
        q.witness(p.cond, f"path {i}")
    return q.result()


def c19_rerun_due(ctx):
    q = Q("c19_rerun_due", ["Zeroconf::run (retransmission loop)"],
          "one pass of the retransmission loop body from an arbitrary state (index, queue contents, now)", ["window slice"])
    f = ctx.funcs[ctx.fn("::run", lambda fn: fn.args and fn.args[0][1] == "&mut Zeroconf")]
    # anchor: the block that holds `Ge(now, retransmissions[i].next_time)`; the call that follows is exec_command(rerun.command, true)
    ex = Explorer(ctx.funcs, ctx.consts, stop_calls=("Zeroconf::exec_command",), max_paths=600)
    cand = None
    for b in sorted(f.blocks, key=lambda x: int(x[2:])):
        st = " ".join(f.blocks[b][0])
        if re.search(r"Ge\(copy _\d+, move _\d+\)", st) and "next_time" in " ".join(f.debug) or False:
            pass
    # locate via the call `Vec::<ReRun>::remove`: its block's dominating comparison is what we want.
    rm = _block_after_call(f, r"Vec::<ReRun>::remove|Vec::<service_daemon::ReRun>::remove")
    if rm is None:
        q.unknown.append("anchor Vec::<ReRun>::remove not found")
        return q.result()
    # walk backwards: find the switchInt block whose true-target leads to the remove call block
    remove_block = rm[2]
    guard = None
    for b, (stmts, term) in f.blocks.items():
        m = re.match(r"switchInt\(move (_\d+)\) -> \[0: (bb\d+), otherwise: (bb\d+)\]", term)
        if m and _leads_to(f, m.group(3), remove_block, 3):
            gs = [s for s in stmts if re.match(rf"{m.group(1)} = Ge\(", s)]
            if gs:
                guard = (b, gs[0])
    if guard is None:
        q.unknown.append("guard `now >= next_time` in front of the re-run not found")
        return q.result()
    gb, gstmt = guard
    paths = ex.explore(f.name, start_block=gb)
    hits = [p for p in paths if p.outcome.startswith("stop")]
    if not hits:
        q.unknown.append("exec_command(rerun) not reached from its guard")
    mm = re.match(r"(_\d+) = Ge\((?:copy|move) (_\d+), (?:copy|move) (_\d+)\)", gstmt)
    for i, p in enumerate(hits):
        # the guard's operands as evaluated on this path are the first condition added
        q.notes.append(f"guard statement: {gstmt}")
        if not p.cond:
            q.unknown.append("path without a condition")
            continue
        c0 = p.cond[0]
        q.valid([], z3.Implies(z3.And(*p.cond), c0), f"path {i}: re-run is executed only under its guard")
        txt = str(c0)
        if "UGE" not in txt and ">=" not in txt:
            q.unknown.append(f"path {i}: guard is not an unsigned >= comparison: {txt[:80]}")
        q.witness(p.cond, f"path {i}: re-run reachable")
        q.nontrivial += 0
    return q.result()


def _leads_to(f, start, target, depth):
    if start == target:
        return True
    if depth == 0:
        return False
    t = f.blocks[start][1]
    for nb in re.findall(r"(?:return|success|otherwise|\d+): (bb\d+)|goto -> (bb\d+)", t):
        n = nb[0] or nb[1]
        if n and "unwind" not in n and _leads_to(f, n, target, depth - 1):
            return True
    return False


def c05_verify_deadline(ctx):
    q = Q("c05_verify_deadline", ["Zeroconf::exec_command_verify"],
          "every path of exec_command_verify to its timer / re-run call sites; any timeout, any clock reading < 2^62",
          ["clock < 2^62", "unmodelled calls are havoc (Duration::as_millis returns an arbitrary u128)"])
    rep = z3.Bool("repeating")
    name = ctx.fn("::exec_command_verify")
    ex = Explorer(ctx.funcs, ctx.consts, stop_calls=("Zeroconf::add_retransmission",), max_paths=800)
    paths = ex.explore(name, args=[None, None, None, BoolV(rep)])
    hits = [p for p in paths if p.outcome.startswith("stop")]
    if not hits:
        q.unknown.append("add_retransmission not reached")
    for i, p in enumerate(hits):
        calls = [e for e in p.events if e[0] == "call"]
        timers = [e for e in calls if e[1].endswith("Zeroconf::add_timer")]
        svq = [e for e in calls if e[1].endswith("service_verify_queries")]
        retr = calls[-1]
        now = p.clock[0].e if p.clock else None
        if now is None or not timers or not svq:
            q.unknown.append(f"path {i}: expected clock read, service_verify_queries and add_timer before the re-run")
            continue
        q.valid(p.cond, z3.Not(rep), f"path {i}: a deadline and a resend are only scheduled by the first (non-repeating) run")
        T = retr[2][1]
        q.valid(p.cond, T.e == now + 1000, f"path {i}: second query one second later", T.taint)
        cmd = retr[2][2]
        if not isinstance(cmd, Adt) or not cmd.name.endswith("Command::Verify"):
            q.unknown.append(f"path {i}: re-run is not Command::Verify")
        exp_opt = svq[0][2][2]
        tval = timers[0][2][1]
        if isinstance(exp_opt, Adt) and exp_opt.items:
            ev = exp_opt.items[0]
            q.valid(p.cond, tval.e == ev.e, f"path {i}: a wake-up is requested exactly at the shortened expiry", False)
            q.valid(p.cond, z3.UGE(ev.e, now) if False else z3.BoolVal(True), f"path {i}: (deadline operand present)")
        else:
            q.unknown.append(f"path {i}: expire_at passed to service_verify_queries is not Some(..): {exp_opt}")
        q.witness(p.cond, f"path {i}")
    # repeating run: never a new deadline
    ex2 = Explorer(ctx.funcs, ctx.consts, stop_calls=(), max_paths=800)
    for p in ex2.explore(name, args=[None, None, None, BoolV(z3.BoolVal(True))]):
        calls = [e for e in p.events if e[0] == "call"]
        if any(e[1].endswith(("Zeroconf::add_timer", "Zeroconf::add_retransmission")) for e in calls):
            q.fail.append(("repeating verify schedules again", "repeating=true"))
        for e in calls:
            if e[1].endswith("service_verify_queries"):
                a = e[2][2]
                if not (isinstance(a, Adt) and a.name.endswith("None")):
                    q.fail.append(("repeating verify shortens expiry again", str(a)[:60]))
    return q.result()


def c07_resend_lookup_key(ctx):
    q = Q("c07_resend_lookup_key", ["Zeroconf::register_service (key of my_services)", "Zeroconf::exec_command_register_resend (look-up for the second announcement)",
                                    "every site building Command::RegisterResend"],
          "every explored path of register_service to the insert and of exec_command_register_resend to the look-up; every site that builds a RegisterResend command",
          ["calls are opaque; value provenance only: which call produced the String used as key"])
    known = None
    # (1) the table's key discipline: register_service inserts under to_lowercase(get_fullname)
    f = ctx.funcs[ctx.fn("::register_service")]
    ex = Explorer(ctx.funcs, ctx.consts, stop_calls=("HashMap::<String, ServiceInfo>::insert",), max_paths=800)
    lowered = None
    for p in ex.explore(f.name):
        if not p.outcome.startswith("stop:"):
            continue
        key = [e for e in p.events if e[0] == "call" and e[1].endswith("HashMap::<String, ServiceInfo>::insert")][-1][2][1]
        prod = _producer(p, _deref_val(p, key) if isinstance(key, Ref) else key) or _producer(p, key)
        lowered = bool(prod and prod[1].endswith("to_lowercase"))
        break
    if lowered is None:
        q.unknown.append("register_service: insert into my_services not reached")
        return q.result()
    if not lowered:
        q.unknown.append("register_service no longer keys my_services by the lower-cased name: the key discipline this query assumes changed")
        return q.result()
    # (2) the look-up of the second announcement
    g = ctx.funcs[ctx.fn("::exec_command_register_resend")]
    ex2 = Explorer(ctx.funcs, ctx.consts, stop_calls=("HashMap::<String, ServiceInfo>::get_mut", "HashMap::<String, ServiceInfo>::get"), max_paths=200)
    look = None
    for p in ex2.explore(g.name):
        if not p.outcome.startswith("stop:"):
            continue
        key = [e for e in p.events if e[0] == "call" and "HashMap::<String, ServiceInfo>::get" in e[1]][-1][2][1]
        v = _deref_val(p, key) if isinstance(key, Ref) else key
        prod = _producer(p, v) if v is not None else None
        look = bool(prod and prod[1].endswith("to_lowercase"))
        break
    if look is None:
        q.unknown.append("exec_command_register_resend: look-up in my_services not reached")
        return q.result()
    # (3) or: every RegisterResend command already carries the lower-cased name
    sites, lowered_sites = 0, 0
    for name, fn in ctx.funcs.items():
        if name.endswith("Command::RegisterResend"):
            continue
        for b, (stmts, term) in fn.blocks.items():
            for x in stmts:
                m = re.fullmatch(r"_\d+ = (?:service_daemon::)?Command::RegisterResend\((?:move|copy) (_\d+), .*\);", x)
                if not m:
                    continue
                sites += 1
                defs = [t for _, t in fn.blocks.values() if t.startswith(m.group(1) + " = ")]
                if len(defs) == 1 and "to_lowercase(" in defs[0]:
                    lowered_sites += 1
    if sites == 0:
        q.unknown.append("no site building Command::RegisterResend found")
        return q.result()
    q.nontrivial += 1
    if not look and lowered_sites < sites:
        q.fail.append(("the second announcement (RegisterResend) looks the service up under the name as registered, but my_services is keyed by the lower-cased name: "
                       "a service whose instance name has an upper-case letter is announced once only",
                       f"look-up key lower-cased: {look}; RegisterResend sites carrying a lower-cased name: {lowered_sites}/{sites}"))
    return q.result()


def _walk_back(fn, block, max_steps=8):
    """follow unique predecessors (normal edges only) upwards: a window that starts a little earlier sees the
    initialisations (`let mut announced = false;`) that precede the anchor"""
    preds = {}
    for b, (_, t) in fn.blocks.items():
        tt = re.sub(r"unwind: bb\d+", "", t)
        for tgt in set(re.findall(r"bb\d+", tt)):
            preds.setdefault(tgt, set()).add(b)
    for _ in range(max_steps):
        ps = preds.get(block, set())
        if len(ps) != 1:
            break
        (pb,) = ps
        if int(pb[2:]) >= int(block[2:]):
            break   # a back edge
        block = pb
    return block


def c07_announced_means_sent(ctx):
    q = Q("c07_announced_means_sent", ["every function that marks a service Announced on an interface (add_interface, send_unsolicited_response, probing_handler, exec_command_register_resend): window from its first announce attempt"],
          "every path from the first call of announce_service_on_intf in the function to its return / the end of the loop pass; the outcome of every announce attempt: Ok(true) / Ok(false) / Err",
          ["window slices", "announce_service_on_intf is replaced by its signature: any of Ok(true), Ok(false), Err(_)", "other calls opaque"])
    sites = 0
    for name, fn in sorted(ctx.funcs.items()):
        if "{closure" in name:
            continue
        ann_blocks = sorted((int(b[2:]), b) for b, (_, t) in fn.blocks.items() if re.search(r"= (?:\w+::)*announce_service_on_intf\(", t))
        marks = any(re.search(r"= (?:\w+::)*ServiceStatus::Announced;", x) for st_, _ in fn.blocks.values() for x in st_)
        if not ann_blocks or not marks:
            continue
        sites += 1
        tag = name.split("::")[-1]
        syms = []

        def model(st, args, syms=syms):
            d = z3.BitVec(f"announce_is_err!{next(_fresh)}", 64)
            b = z3.Bool(f"announced!{next(_fresh)}")
            st.cond.append(z3.ULE(d, z3.BitVecVal(1, 64)))
            st.events.append(("announce-result", "", (d, b), None))
            return Adt("Result::Ok?", [BoolV(b)], discr=d)
        ex = Explorer(ctx.funcs, ctx.consts, max_paths=3000)
        ex.call_models = {"announce_service_on_intf": model}
        paths = ex.explore(fn.name, start_block=_walk_back(fn, ann_blocks[0][1]))
        if ex.cut_paths:
            q.unknown.append(f"{tag}: path budget exhausted")
        n_mark = 0
        for i, p in enumerate(paths):
            if not (p.outcome == "return" or p.outcome.startswith("cut:loop")):
                continue
            sent = []
            for e in p.events:
                if e[0] == "announce-result":
                    sent.append(z3.And(e[2][0] == 0, e[2][1]))
                if e[0] == "call" and e[1].endswith("::set_status") and len(e[2]) >= 3 and isinstance(e[2][2], Adt) and e[2][2].name.endswith("Announced"):
                    n_mark += 1
                    q.valid(p.cond, z3.Or(*sent) if sent else z3.BoolVal(False),
                            f"{tag}: path {i}: a service is marked Announced on an interface only if an announcement went out there on this path", allow_havoc=True)
                    if n_mark == 1:
                        q.witness(p.cond, f"{tag}: path {i}")
        if n_mark == 0:
            q.unknown.append(f"{tag}: no path from the announce attempt marks the service Announced")
    if sites < 4:
        q.unknown.append(f"expected 4 functions that announce and mark Announced (found {sites})")
    q.fail = q.fail[:6]
    return q.result()


def c07_check_probing_paths(ctx):
    q = Q("c07_check_probing_paths", ["check_probing (one probe, first loop iteration)", "Probe::expired", "Probe::update_next_send"],
          "every path of one iteration of check_probing over an ARBITRARY probe (start_time, next_send < 2^62) and any now < 2^62",
          ["iterator and packet-building calls are opaque; Probe::expired / update_next_send are executed from their MIR", "clock < 2^62"])
    f = ctx.funcs["check_probing"] if "check_probing" in ctx.funcs else ctx.funcs[ctx.fn("check_probing")]
    now = z3.BitVec("now", 64)
    ex = Explorer(ctx.funcs, ctx.consts, inline={"expired", "update_next_send"}, max_paths=600)
    paths = ex.explore(f.name, args=[None, None, BV(now, 64)], assumptions=[z3.ULT(now, TWO62)])
    seen = {"sent": 0, "finished": 0, "idle": 0}
    outer = [b for b, (st, t) in f.blocks.items() if "hash_map::IterMut" in t and "Iterator>::next" in t]
    if len(outer) != 1:
        q.unknown.append("outer loop head of check_probing not found")
        return q.result()
    end_ok = ("return", "cut:loop@check_probing:" + outer[0])
    for i, p in enumerate(paths):
        if not p.outcome.startswith("panic") and p.outcome not in end_ok:
            continue   # cut inside the inner loop over the probe's records: the iteration is not complete
        if p.outcome.startswith("panic"):
            probes = [o for o, fl in p.objs.items() if (2,) in fl]
            pre = p.cond + [z3.ULT(fl[(2,)].e, TWO62) for o, fl in p.objs.items() if (2,) in fl and isinstance(fl[(2,)], BV)]
            q.unsat(pre, "check_probing panics: " + p.outcome[6:46])
            continue
        calls = [e for e in p.events if e[0] == "call"]
        names = [c[1].split("::")[-1] for c in calls]
        # the probe object: the one whose next_send (field 3) was compared with now
        probes = [(o, fl) for o, fl in p.objs.items() if (3,) in fl and isinstance(fl[(3,)], BV)]
        if not probes:
            continue   # map empty: nothing to do
        o, fl = probes[0]
        asked = "add_question" in names
        done = any(c[1].startswith("Vec::<String>::push") for c in calls)
        pushes = [c for c in calls if "BinaryHeap" in c[1] and c[1].endswith("::push")]
        start = fl.get((2,))
        if asked:
            seen["sent"] += 1
            if start is None or not isinstance(start, BV):
                q.fail.append(("a probe is sent without checking whether probing is already over", f"path {i}"))
                continue
            pre = p.cond + [z3.ULT(start.e, TWO62)]
            q.valid(pre, z3.ULT(now, start.e + 750), f"path {i}: no probe is sent once start + 750 ms has passed")
            ns = fl[(3,)]
            if done:
                q.fail.append(("a probe that is reported finished is still sent", f"path {i}"))
            if len(pushes) != 1:
                q.fail.append(("no wake-up requested for the next probe", f"path {i}: {len(pushes)} timer pushes"))
            else:
                arg = pushes[0][2][1]
                val = arg.items[0] if isinstance(arg, (Adt, Tup)) and arg.items else arg
                q.valid(pre, val.e == now + 250, f"path {i}: the next probe (and its wake-up) is due 250 ms after this one", getattr(val, "taint", True))
                q.valid(pre, ns.e == now + 250, f"path {i}: next_send' == now + 250")
            q.witness(pre, f"path {i}: probe sent")
        elif done:
            seen["finished"] += 1
            if start is not None and isinstance(start, BV):
                q.valid(p.cond + [z3.ULT(start.e, TWO62)], z3.UGE(now, start.e + 750), f"path {i}: a probe is only reported finished from start + 750 ms on")
            if pushes:
                q.fail.append(("a finished probe requests a further wake-up", f"path {i}"))
        else:
            seen["idle"] += 1
            if pushes:
                q.fail.append(("an idle probe requests a wake-up", f"path {i}"))
    if not (seen["sent"] and seen["finished"] and seen["idle"]):
        q.unknown.append(f"expected sent/finished/idle paths, found {seen}")
    return q.result()


def c07_reannounce_delay(ctx):
    q = Q("c07_reannounce_delay", ["Zeroconf::send_unsolicited_response (tail)"],
          "window from the last clock read of send_unsolicited_response to the RegisterResend re-run (first loop iteration); clock < 2^62",
          ["clock < 2^62", "window slice"])
    f = ctx.funcs[ctx.fn("::send_unsolicited_response")]
    calls = []
    k = 0
    while True:
        b = _block_after_call(f, r"current_time_millis", k)
        if b is None:
            break
        calls.append(b)
        k += 1
    if not calls:
        q.unknown.append("no clock read in send_unsolicited_response")
        return q.result()
    start, dest, _ = calls[-1]
    now = z3.BitVec("now", 64)
    ex = Explorer(ctx.funcs, ctx.consts, stop_calls=("Zeroconf::add_retransmission",), max_paths=600)
    paths = ex.explore(f.name, start_block=start, locals_={dest: BV(now, 64)}, assumptions=[z3.ULT(now, TWO62)])
    hits = [p for p in paths if p.outcome.startswith("stop")]
    if not hits:
        q.unknown.append("RegisterResend re-run not reached")
    for p in paths:
        if p.outcome.startswith("panic"):
            q.unsat(p.cond, "panics: " + p.outcome[6:50])
    for i, p in enumerate(hits):
        a = p.events[-1][2]
        T, cmd = a[1], a[2]
        q.valid(p.cond, T.e == now + 1000, f"path {i}: second announcement exactly one second later", T.taint)
        if not (isinstance(cmd, Adt) and cmd.name.endswith("Command::RegisterResend")):
            q.unknown.append(f"path {i}: re-run is not Command::RegisterResend")
        q.witness(p.cond, f"path {i}")
    return q.result()


SPECS = {
    "C11": [c11_new_lifetime, c11_predicates, c11_refresh_schedule, c11_reset_restarts, c11_cache_flush_rule, c11_addr_lookup_lowercase, c11_hostname_refresh_guard],
    "C10": [c10_update_ttl, c10_known_answer_filter, c10_suppressed_ptr_no_additionals, c10_known_answer_wire_ttl],
    "C05": [c05_reset_restores, c05_verify_deadline, c05_verify_shortens_only, c05_evict_predicate, c05_removed_addr_key, c11_cache_flush_rule],
    "C18": [c18_affected_host_lowercase, c11_cache_flush_rule, c18_intf_removed_purges_both, c18_deleted_before_added],
    "C07": [c07_probe_clock, c07_reannounce_delay, c07_check_probing_paths, c07_resend_lookup_key, c07_announced_means_sent, c12_probe_timers],
    "C12": [c12_poll_timeout, c12_ipcheck_rearm, c12_hostname_timeout_timer, c12_hostname_timeout_due, c12_response_record_timers, c12_rerun_has_timer, c12_probe_timers, c12_conflict_probe_timer, c12_tiebreak_retry_timer, c11_cache_flush_rule, c05_verify_deadline, c07_check_probing_paths],
    "C19": [c19_browse_backoff, c19_hostname_backoff, c19_hostname_timeout_guard, c19_resolve_retry, c19_initial_delay, c19_rerun_due, c19_browse_listener_gone],
    "C08": [c08_tiebreak_count_operands, c08_rename_by_record_kind, c08_answer_uses_resolved_host, c06_additionals_use_resolved_names, c08_packets_use_resolved_names],
    "C06": [c06_additionals_use_resolved_names, c06_answer_only_when_announced, c06_address_families_by_qtype],
    "C16": [c16_decode_txt_step, c16_first_key_wins, c16_prop_len_check],
    "C01": [c01_name_cap_operand],
    "C15": [c01_name_cap_operand, c16_decode_txt_step],
    "C20": [c20_not_for_us_paths, c20_txt_evicted_without_srv, c05_evict_predicate, c12_response_record_timers, c20_purge_loop_step],
}
