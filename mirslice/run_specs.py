#!/usr/local/bin/python3-vt
"""run_specs.py <prop> <tier> <seed> <mir.txt> <out.json> [only,...]"""
import json
import sys
import os
import traceback
sys.path.insert(0, os.path.dirname(os.path.abspath(__file__)))
from mirslice import parse_mir
import specs


def main():
    prop, tier, seed, mirfile, out = sys.argv[1:6]
    only = sys.argv[6].split(",") if len(sys.argv) > 6 and sys.argv[6] else None
    funcs, consts = parse_mir(open(mirfile).read())
    import os
    from mirslice import load_enums
    src = os.environ.get("VERIF_SRC") or os.path.join(os.path.dirname(os.path.abspath(mirfile)), "src")
    load_enums(src if os.path.isdir(src) else os.path.join(os.environ.get("VERIF_REPO", "/repo"), "src"))
    ctx = specs.Ctx(funcs, consts, tier, int(seed))
    res = []
    for sp in specs.SPECS.get(prop, []):
        if only and sp.__name__ not in only:
            continue
        try:
            r = sp(ctx)
        except Exception as e:  # translation failure = inconclusive, never a verdict
            r = {"engine": "B:mirslice/z3+cvc5", "query": sp.__name__, "status": "inconclusive",
                 "detail": "translator error: " + repr(e)[:300], "trace": traceback.format_exc()[-1500:],
                 "queries": 0, "nontrivial": 0, "solver_s": 0.0, "functions": [], "assumptions": []}
        res.append(r)
    json.dump({"mir_functions": len(funcs), "results": res}, open(out, "w"), indent=1, default=str)


if __name__ == "__main__":
    main()
