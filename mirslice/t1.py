import sys
sys.path.insert(0,'/verif/mirslice')
from mirslice import *
funcs, consts = parse_mir(open('/tmp/mir.txt').read())
print(len(funcs), 'functions;', list(consts.items())[:5])
ex = Explorer(funcs, consts, inline={'get_expiration_time','is_expired','refresh_due','refresh_no_more'}, max_visits=1)
f = [n for n in funcs if n.endswith('::refresh_maybe')][0]
paths = ex.explore(f)
for p in paths:
    print(p.outcome, len(p.cond), p.ret, [ (k, v) for o in p.objs.values() for k,v in o.items()][:6])
print('unknown:', ex.unknown_constructs[:10], 'solver calls', ex.n_solver_calls)
