import sys
sys.path.insert(0,'/verif/mirslice')
from mirslice import *
import specs
funcs, consts = parse_mir(open('/tmp/mir.txt').read())
ctx=specs.Ctx(funcs,consts,'quick',0)
f, created, ttl, pre = specs.rec_fields()
now=z3.BitVec('now',64)
n=ctx.fn('::update_ttl')
print(funcs[n].header)
for b,(st,t) in funcs[n].blocks.items(): print(b, st, t)
ex=Explorer(funcs,consts,inline=specs.REC_INLINE)
oid=('self',0)
for p in ex.explore(n,args=[Ref(oid,()),BV(now,64)],objs={oid:dict(f)}):
    print(p.outcome, p.cond, p.objs[oid].get((1,)))
hl = summarize(funcs, consts, ctx.fn("::halflife_passed"), [None, BV(now, 64)], f, specs.REC_INLINE)
up = summarize(funcs, consts, ctx.fn("::update_ttl"), [None, BV(now, 64)], f, specs.REC_INLINE)
print('hl', hl.ret, hl.n_paths)
print('up', up.fields.get((1,)))
s=z3.Solver()
s.add(now==1699264398427547665, created==1699263559411724544, ttl==2291444670)
s.check(); m=s.model()
print(m.eval(hl.ret.e), m.eval(up.fields[(1,)].e))
