#!/usr/local/bin/python3-vt
"""Translator validation (DESIGN 2.6b): the SMT summaries of the scalar DnsRecord / Probe methods are
evaluated on concrete vectors and compared with the natively compiled functions.

tv.py gen  <seed> <out.rs-dir>     -> writes tv_dns_parser.rs / tv_service_info.rs (test modules) + vectors.json
tv.py cmp  <mir.txt> <vectors.json> <native-output.txt> <out.json>
"""
import json
import os
import random
import sys
import re
sys.path.insert(0, os.path.dirname(os.path.abspath(__file__)))
import z3
from mirslice import parse_mir, summarize, BV, BoolV, Ref, Explorer, _fresh
import specs

M64 = (1 << 64) - 1


def vectors(seed, n=200):
    r = random.Random(seed)
    out = []
    corner_t = [0, 1, 2, 120, 4500, 0x7FFFFFFF, 0xFFFFFFFF, 4294967, 4294968]
    corner_c = [0, 1, 1000, 1 << 40, (1 << 62) - 1, 1695000000000]
    for _ in range(n):
        ttl = r.choice(corner_t) if r.random() < 0.4 else r.getrandbits(32)
        created = r.choice(corner_c) if r.random() < 0.4 else r.getrandbits(62)
        life = created + 1000 * ttl
        pct = r.choice([80, 85, 90, 95, 100])
        refresh = created + 10 * pct * ttl if r.random() < 0.8 else r.getrandbits(62)
        expires = life if r.random() < 0.7 else r.getrandbits(62)
        k = r.random()
        if k < 0.5:
            now = min(M64 >> 2, max(0, r.choice([refresh, expires, life, created + 500 * ttl, created]) + r.choice([-1001, -1000, -1, 0, 1, 999, 1000, 1001])))
        else:
            now = r.getrandbits(62)
        ttl2 = r.choice(corner_t) if r.random() < 0.5 else r.getrandbits(32)
        created2 = r.getrandbits(62)
        out.append({"ttl": ttl, "created": created, "expires": expires & M64, "refresh": refresh & M64, "now": now, "ttl2": ttl2, "created2": created2, "pct": pct})
    return out


RUST_REC = r'''
#[cfg(test)]
mod verif_tv {
    use super::*;
    use std::panic::{catch_unwind, AssertUnwindSafe};
    fn rec(ttl: u32, created: u64, expires: u64, refresh: u64) -> DnsRecord {
        DnsRecord { entry: DnsEntry::new(String::new(), RRType::A, 1), ttl, created, expires, refresh, new_name: None }
    }
    #[test]
    fn tv() {
        std::panic::set_hook(Box::new(|_| {}));
        let v: &[(u32, u64, u64, u64, u64, u32, u64, u32)] = &[%VECS%];
        for (i, &(ttl, c, e, r, now, ttl2, c2, pct)) in v.iter().enumerate() {
            let run = |name: &str, f: &dyn Fn(&mut DnsRecord) -> u64| {
                let mut x = rec(ttl, c, e, r);
                let res = catch_unwind(AssertUnwindSafe(|| f(&mut x)));
                match res {
                    Ok(v) => println!("TV|{}|{}|ok|{}|{}|{}|{}|{}", name, i, v, x.ttl, x.created, x.expires, x.refresh),
                    Err(_) => println!("TV|{}|{}|panic", name, i),
                }
            };
            run("is_expired", &|x| x.is_expired(now) as u64);
            run("expires_soon", &|x| x.expires_soon(now) as u64);
            run("refresh_due", &|x| x.refresh_due(now) as u64);
            run("halflife_passed", &|x| x.halflife_passed(now) as u64);
            run("refresh_maybe", &|x| x.refresh_maybe(now) as u64);
            run("refresh_no_more", &|x| { x.refresh_no_more(); 0 });
            run("update_ttl", &|x| { x.update_ttl(now); 0 });
            run("set_expire", &|x| { x.set_expire(now); 0 });
            run("reset_ttl", &|x| { let o = rec(ttl2, c2, 0, 0); x.reset_ttl(&o); 0 });
            run("get_expiration_time", &|_x| get_expiration_time(c, ttl, pct));
        }
    }
}
'''

RUST_PROBE = r'''
#[cfg(test)]
mod verif_tv {
    use super::*;
    use std::panic::{catch_unwind, AssertUnwindSafe};
    #[test]
    fn tv() {
        std::panic::set_hook(Box::new(|_| {}));
        let v: &[(u64, u64, u64)] = &[%VECS%];
        for (i, &(start, next, now)) in v.iter().enumerate() {
            let run = |name: &str, f: &dyn Fn(&mut Probe) -> u64| {
                let mut p = Probe::new(start);
                p.next_send = next;
                match catch_unwind(AssertUnwindSafe(|| f(&mut p))) {
                    Ok(v) => println!("TV|{}|{}|ok|{}|{}|{}", name, i, v, p.start_time, p.next_send),
                    Err(_) => println!("TV|{}|{}|panic", name, i),
                }
            };
            run("probe_expired", &|p| p.expired(now) as u64);
            run("probe_update_next_send", &|p| { p.update_next_send(now); 0 });
        }
    }
}
'''


def gen(seed, outdir, extra=None):
    vs = vectors(seed)
    if extra and os.path.exists(extra):
        # counterexamples of failed queries, replayed against the compiled functions as additional vectors
        for v in json.load(open(extra)):
            vs.append({k: int(v.get(k, 0)) & (0xFFFFFFFF if k in ("ttl", "ttl2", "pct") else M64)
                       for k in ("ttl", "created", "expires", "refresh", "now", "ttl2", "created2", "pct")})
    rows = ", ".join("(%d, %d, %d, %d, %d, %d, %d, %d)" % (v["ttl"], v["created"], v["expires"], v["refresh"], v["now"], v["ttl2"], v["created2"], v["pct"]) for v in vs)
    open(os.path.join(outdir, "tv_dns_parser.rs"), "w").write(RUST_REC.replace("%VECS%", rows))
    rows = ", ".join("(%d, %d, %d)" % (v["created"], v["refresh"], v["now"]) for v in vs)
    open(os.path.join(outdir, "tv_service_info.rs"), "w").write(RUST_PROBE.replace("%VECS%", rows))
    json.dump(vs, open(os.path.join(outdir, "vectors.json"), "w"))


def ev(e, sub):
    r = z3.simplify(z3.substitute(e, *sub))
    if z3.is_bv_value(r):
        return r.as_long()
    if z3.is_true(r):
        return 1
    if z3.is_false(r):
        return 0
    return None


def cmp_(mirfile, vecfile, nativefile, out):
    funcs, consts = parse_mir(open(mirfile).read())
    ctx = specs.Ctx(funcs, consts, "quick", 0)
    vs = json.load(open(vecfile))
    native = {}
    for l in open(nativefile, errors="replace"):
        if "TV|" in l:
            p = l[l.index("TV|"):].strip().split("|")
            native[(p[1], int(p[2]))] = p[3:]
    ttl, c, e, r = z3.BitVec("ttl", 32), z3.BitVec("c", 64), z3.BitVec("e", 64), z3.BitVec("r", 64)
    now, ttl2, c2 = z3.BitVec("now", 64), z3.BitVec("ttl2", 32), z3.BitVec("c2", 64)
    F = {specs.TTL: BV(ttl, 32), specs.CREATED: BV(c, 64), specs.EXPIRES: BV(e, 64), specs.REFRESH: BV(r, 64)}
    INL = specs.REC_INLINE
    sums = {}

    def S(name, suffix, args, pred=None, fields=F, inline=INL):
        s = summarize(funcs, consts, ctx.fn(suffix, pred), args, fields, inline)
        sums[name] = s
    recself = lambda fn: fn.args and fn.args[0][1] in ("&DnsRecord", "&mut DnsRecord")
    S("is_expired", "::is_expired", [None, BV(now, 64)], recself)
    S("expires_soon", "::expires_soon", [None, BV(now, 64)], recself)
    S("refresh_due", "::refresh_due", [None, BV(now, 64)], recself)
    S("halflife_passed", "::halflife_passed", [None, BV(now, 64)], recself)
    S("refresh_maybe", "::refresh_maybe", [None, BV(now, 64)], recself)
    S("refresh_no_more", "::refresh_no_more", [None], recself)
    S("update_ttl", "::update_ttl", [None, BV(now, 64)], recself)
    S("set_expire", "::set_expire", [None, BV(now, 64)], recself)
    # reset_ttl: two objects
    ex = Explorer(funcs, consts, inline=INL)
    so, oo = ("self", 0), ("other", 0)
    rp = ex.explore(ctx.fn("::reset_ttl", lambda fn: fn.args and fn.args[0][1] == "&mut DnsRecord"), args=[Ref(so, ()), Ref(oo, ())],
                    objs={so: dict(F), oo: {specs.TTL: BV(ttl2, 32), specs.CREATED: BV(c2, 64)}})
    pct = z3.BitVec("pct", 32)
    exg = Explorer(funcs, consts)
    gp = exg.explore("get_expiration_time", args=[BV(c, 64), BV(ttl, 32), BV(pct, 32)])
    # probe
    ps, pn = z3.BitVec("ps", 64), z3.BitVec("pn", 64)
    PF = {(2,): BV(ps, 64), (3,): BV(pn, 64)}
    S("probe_expired", "::expired", [None, BV(now, 64)], lambda fn: fn.args and fn.args[0][1] == "&Probe", PF, set())
    S("probe_update_next_send", "::update_next_send", [None, BV(now, 64)], None, PF, set())
    mism, compared = [], 0
    from mirslice import LEMMAS
    for i, v in enumerate(vs):
        sub = [(ttl, z3.BitVecVal(v["ttl"], 32)), (c, z3.BitVecVal(v["created"], 64)), (e, z3.BitVecVal(v["expires"], 64)),
               (r, z3.BitVecVal(v["refresh"], 64)), (now, z3.BitVecVal(v["now"], 64)), (ttl2, z3.BitVecVal(v["ttl2"], 32)),
               (c2, z3.BitVecVal(v["created2"], 64)), (pct, z3.BitVecVal(v["pct"], 32)),
               (ps, z3.BitVecVal(v["created"], 64)), (pn, z3.BitVecVal(v["refresh"], 64))]

        def path_eval(paths, objkey=None):
            """pick the path whose condition evaluates to true under the vector (solver: lemma variables)"""
            for p in paths:
                s = z3.Solver()
                s.add(*[z3.substitute(x, *sub) for x in p.cond])
                s.add(*[z3.substitute(x, *sub) for x in LEMMAS])
                if s.check() == z3.sat:
                    return p, s.model()
            return None, None
        for name, s in sums.items():
            nat = native.get((name, i))
            if nat is None:
                mism.append((name, i, "no native result"))
                continue
            compared += 1
            sol = z3.Solver()
            sol.add(*[z3.substitute(x, *sub) for x in LEMMAS])
            sol.add(z3.substitute(s.panic, *sub))
            pan = sol.check() == z3.sat
            if nat[0] == "panic" or pan:
                if (nat[0] == "panic") != pan:
                    mism.append((name, i, f"panic native={nat[0]} smt={pan}", v))
                continue
            fields = F if not name.startswith("probe") else PF
            after = dict(fields)
            after.update(s.fields)
            order = [specs.TTL, specs.CREATED, specs.EXPIRES, specs.REFRESH] if not name.startswith("probe") else [(2,), (3,)]
            exprs = ([s.ret.e] if s.ret is not None else [z3.BitVecVal(0, 64)]) + [after[k].e for k in order]
            m = z3.Solver()
            m.add(*[z3.substitute(x, *sub) for x in LEMMAS])
            m.check()
            mod = m.model()
            vals = []
            for x in exprs:
                y = mod.eval(z3.substitute(x, *sub), model_completion=True)
                y = z3.simplify(y)
                vals.append(1 if z3.is_true(y) else 0 if z3.is_false(y) else y.as_long())
            want = [int(x) for x in nat[1:]]
            if vals != want:
                mism.append((name, i, f"smt={vals} native={want}", v))
        # reset_ttl and get_expiration_time through path evaluation
        for name, paths, okey, order in (("reset_ttl", rp, so, [specs.TTL, specs.CREATED, specs.EXPIRES, specs.REFRESH]), ("get_expiration_time", gp, None, [])):
            nat = native.get((name, i))
            if nat is None:
                mism.append((name, i, "no native result"))
                continue
            compared += 1
            p, mod = path_eval(paths)
            if p is None:
                mism.append((name, i, "no feasible path"))
                continue
            pan = p.outcome.startswith("panic")
            if nat[0] == "panic" or pan:
                if (nat[0] == "panic") != pan:
                    mism.append((name, i, f"panic native={nat[0]} smt={p.outcome}", v))
                continue
            if name == "reset_ttl":
                vals = [0] + [ev(p.objs[okey][k].e, sub) for k in order]
                want = [int(x) for x in nat[1:]]
            else:
                vals = [ev(p.ret.e, sub)]
                want = [int(nat[1])]
            if vals != want:
                mism.append((name, i, f"smt={vals} native={want}", v))
    res = {"engine": "B:mirslice/z3+cvc5", "query": "b_translator_validation",
           "status": "held" if not mism and compared > 0 else "inconclusive",
           "detail": "" if not mism else "translator/native mismatch: " + str(mism[:3])[:500],
           "queries": compared, "nontrivial": len(sums) + 2, "solver_s": 0.0,
           "functions": sorted(list(sums) + ["reset_ttl", "get_expiration_time"]),
           "assumptions": ["native side: dev profile `cargo test` of the working tree with a cfg(test) module appended"],
           "bound": f"{len(vs)} concrete vectors (corner values + random, VERIF_SEED) x {len(sums) + 2} summarised functions: return value, every field, panic/no panic",
           "vectors": len(vs), "compared": compared,
           "mismatch_indices": sorted({m[1] for m in mism})}
    json.dump(res, open(out, "w"), indent=1, default=str)


if __name__ == "__main__":
    if sys.argv[1] == "gen":
        gen(int(sys.argv[2]), sys.argv[3], sys.argv[4] if len(sys.argv) > 4 else None)
    else:
        cmp_(*sys.argv[2:6])
